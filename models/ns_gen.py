"""Generator of namespaces for C14 (cache transparency) and the snapshot canonicaliser.

A generated namespace is a list of *units*; each unit is one or more top-level forms
followed by an effect marker `(.append (. (python/__import__ "verif_fx") -effects) i)`,
so a correct load - from source or from cache - leaves exactly [0..n-1] in the log.
`version` perturbs some literals (an "edit") while keeping every name.
"""

KW_POOL = ["k", "alpha", "beta-gamma", "x1", "status", "done", "kx", "a", "b", "id"]
NS_KW_POOL = ["verif.k/x", "app.core/name", "a.b/c"]
STR_POOL = ["", "x", "héllo", "日本", "tab\\there", "quote\\\"d", "i42e"]


def _lit(rng, depth=0):
    r = rng.random()
    if depth >= 2 or r < 0.45:
        c = rng.randrange(16)
        if c == 0:
            return str(rng.randrange(-1000, 1000))
        if c == 1:
            return str(rng.choice([2 ** 70, -(3 ** 50)]))
        if c == 2:
            return rng.choice(["1.5", "-0.25", "1e10"])
        if c == 3:
            return rng.choice(["1/3", "-22/7"])
        if c == 4:
            return rng.choice(["1.5M", "100M"])
        if c == 5:
            return '"' + rng.choice(STR_POOL) + '"'
        if c in (6, 7, 8):
            return ":" + rng.choice(KW_POOL)
        if c == 9:
            return ":" + rng.choice(NS_KW_POOL)
        if c == 10:
            return "'" + rng.choice(["foo", "bar/baz", "a.b/c"])
        if c == 11:
            return '#"a+b[0-9]"'
        if c == 12:
            return '#uuid "6f1e8a8e-0d1c-4c9b-9a57-3c1c6a0e4b11"'
        if c == 13:
            return '#inst "2020-05-17T12:30:00.000-00:00"'
        if c == 14:
            return rng.choice(["nil", "true", "false", "##Inf"])
        return '#b "ab\\x00c"'
    if r < 0.6:
        return "[" + " ".join(_lit(rng, depth + 1) for _ in range(rng.randrange(4))) + "]"
    if r < 0.75:
        ks = rng.sample(KW_POOL, rng.randrange(1, 4))
        return "{" + " ".join(f":{k} {_lit(rng, depth + 1)}" for k in ks) + "}"
    if r < 0.85:
        ks = rng.sample(KW_POOL + ["1", "2", '"s"'], rng.randrange(1, 4))
        return "#{" + " ".join((":" + k) if k in KW_POOL else k for k in ks) + "}"
    if r < 0.92:
        return "'(" + " ".join(_lit(rng, depth + 1).lstrip("'") for _ in range(rng.randrange(3))) + ")"
    return "^{:tag :" + rng.choice(KW_POOL) + "} [" + _lit(rng, depth + 1) + "]"


def _big_const(rng, i, n):
    """A large quoted collection (sizes around plausible compiler thresholds) whose members' hashes matter."""
    size = rng.choice([8, 16, 31, 32, 33, 40, 64, 130])
    kind = rng.choice(["set", "map", "vec", "list"])
    mk = rng.choice(["sym", "sym", "nssym", "kw", "str", "mixed"])

    def member(j):
        m = mk if mk != "mixed" else ("sym", "kw", "str", "nssym")[j % 4]
        if m == "sym":
            return f"op-{j:02d}"
        if m == "nssym":
            return f"tbl.n{j % 3}/op-{j:02d}"
        if m == "kw":
            return f":op-{j:02d}"
        return f'"op-{j:02d}"'
    ms = [member(j) for j in range(size)]
    probe = [ms[0], ms[size // 2], ms[-1]]
    q = lambda t: t if t[0] in ':"' else "'" + t        # noqa: E731
    if kind == "set":
        return [f"(def {n} '#{{{' '.join(ms)}}})"], [(n, q(p)) for p in probe] + [(n, "'absent")]
    if kind == "map":
        return [f"(def {n} '{{{' '.join(f'{m} {j}' for j, m in enumerate(ms))}}})"], \
            [(n, q(p)) for p in probe] + [(n, "'absent")]
    body = " ".join(ms)
    form = f"(def {n} '[{body}])" if kind == "vec" else f"(def {n} '({body}))"
    return [form, f"(def {n}-idx (zipmap {n} (range)))", f"(defn {n}-has? [x] (contains? (set {n}) x))"], \
        [(f"{n}-idx", q(p)) for p in probe] + [(f"{n}-has?", q(probe[1])), (f"{n}-has?", "'absent")]


def _unit_extra(rng, i, n):
    c = rng.randrange(14)
    k = rng.choice(KW_POOL)
    if c in (9, 10):
        return _big_const(rng, i, n)
    if c == 11:     # an interface, a type implementing it, an instance check and a method call
        return [f"(definterface I{i} (m{i} []) (n{i} [x]))",
                f"(deftype X{i} [v] I{i} (m{i} [this] [:x v]) (n{i} [this x] [x v]))",
                f"(def {n} (let [o (X{i} {rng.randrange(9)})] [(instance? I{i} o) (.m{i} o) (.n{i} o :{k})]))"], []
    if c == 12:     # defonce / declare-then-def: forms whose expansion depends on whether the Var exists
        return [f"(declare {n}-later)", f"(defonce {n} {_lit(rng)})", f"(defn {n}-f [] [{n} ({n}-later)])",
                f"(defn {n}-later [] :{k})"], [(f"{n}-f", "")]
    if c == 13:     # a protocol extended to existing host types
        return [f"(defprotocol Q{i} ({n}-q [this]))",
                f"(extend-protocol Q{i} python/int ({n}-q [this] [:int this]) python/str ({n}-q [this] [:str this]))",
                f"(def {n} [({n}-q {rng.randrange(9)}) ({n}-q \"s\")])"], []
    if c == 0:      # several defs under one top-level do (unrolled by the compiler)
        return [f"(do (def {n} {_lit(rng)}) (def {n}-b {_lit(rng)}) (def {n}-c [{n} {n}-b]))"], []
    if c == 1:      # load-time, namespace dependent
        return [f"(def {n} [(name (ns-name *ns*)) (str (:ns (meta (var version-marker-probe))))])"], []
    if c == 2:      # host literals
        return [f'(def {n} [#py [1 :{k} "s"] #py {{"a" :{k}}} #py #{{1 2}} #queue [1 :{k}]])'], []
    if c == 3:      # custom metadata on the Var and on the value
        return [f'(def ^{{:doc "d{i}" :custom {{:k :{k}}} :tag python/int}} {n} ^:flag [{rng.randrange(9)}])'], []
    if c == 4:      # case over several constant kinds
        return [f'(defn {n} [x] (case x :{k} :kw \'sym :sym "str" :str 42 :int [:{k} 1] :vec :default))'], \
            [(n, f":{k}"), (n, "'sym"), (n, '"str"'), (n, "42"), (n, f"[:{k} 1]"), (n, "nil")]
    if c == 5:      # reader conditional and a set used as a fn
        return [f"(def {n} [#?(:lpy :{k} :clj :other) (#{{:{k} :zz}} (keyword \"{k}\"))])"], []
    if c == 6:      # keyword-argument fn and destructuring with keyword keys
        return [f"(defn {n} [{{:keys [{k} other] :or {{other :dflt}}}}] [{k} other])"], \
            [(n, "{:%s 1}" % k), (n, "{:%s 2 :other 3}" % k)]
    if c == 7:      # a second required namespace
        return [f"(def {n} (cset/union #{{:{k}}} #{{:zz {rng.randrange(5)}}}))"], []
    return [f"(def {n} (letfn [(f# [x#] (if (pos? x#) (recur (dec x#)) :{k}))] (f# 3)))".replace("#", "")], []


def _unit(rng, i):
    """-> (forms, calls) ; calls = list of (fn-name, args-text) the snapshot evaluates."""
    n = f"u{i}"
    if rng.random() < 0.16:
        return _unit_extra(rng, i, n)
    r = rng.random()
    if r < 0.28:
        return [f"(def {n} {_lit(rng)})"], []
    if r < 0.36:
        return [f"(def ^:private {n} {_lit(rng)})"], []
    if r < 0.42:
        return [f"(def ^:dynamic *{n}* {_lit(rng)})"], []
    if r < 0.52:
        k = rng.randrange(100)
        return [f'(defn {n} "doc for {n}" [x] (+ x {k}))'], [(n, f"{rng.randrange(10)}")]
    if r < 0.58:
        return [f"(defn {n} ([] :zero) ([a] [:one a]) ([a & more] [:many a (count more)]))"], \
            [(n, ""), (n, "1"), (n, "1 2 3")]
    if r < 0.64:
        return [f"(def {n} (let [a {_lit(rng)}] (fn [x] [a x])))"], [(n, ":arg")]
    if r < 0.70:
        return [f"(defmacro {n}-m [x] `(vector ~x ~x :{rng.choice(KW_POOL)}))", f"(def {n} ({n}-m {rng.randrange(9)}))"], []
    if r < 0.76:
        t = f"R{i}"
        return [f"(defrecord {t} [a b])", f"(def {n} (->{t} {rng.randrange(9)} :{rng.choice(KW_POOL)}))"], []
    if r < 0.80:
        p = f"P{i}"
        return [f"(defprotocol {p} ({n}-op [this]))",
                f"(deftype T{i} [v] {p} ({n}-op [this] [:t v]))",
                f"(def {n} ({n}-op (T{i} {rng.randrange(9)})))"], []
    if r < 0.86:
        k1, k2 = rng.sample(KW_POOL, 2)
        return [f"(defmulti {n} :kind)", f"(defmethod {n} :{k1} [m] [:first (:v m)])",
                f"(defmethod {n} :{k2} [m] [:second (:v m)])", f"(defmethod {n} :default [m] :dflt)"], \
            [(n, "{:kind :%s :v 1}" % k1), (n, "{:kind :%s :v 2}" % k2), (n, "{:kind :zzz}")]
    if r < 0.885:
        return [f'(def {n} (str/upper-case "{rng.choice(["abc", "héllo"])}"))'], []
    k = rng.choice(KW_POOL)
    c = rng.randrange(5)
    if c == 0:
        return [f'(def {n} (identical? :{k} (keyword "{k}")))'], []
    if c == 1:
        return [f'(def {n} (get {{:{k} 1}} (keyword "{k}") :missing))'], []
    if c == 2:
        return [f'(def {n} (case (keyword "{k}") :{k} :hit :miss))'], []
    if c == 3:
        return [f'(def {n} (contains? #{{:{k} :zz}} (keyword "{k}")))'], []
    return [f'(defn {n} [x] (identical? x :{k}))'], [(n, f'(keyword "{k}")')]


def generate(rng, nsname, nunits):
    """-> description dict (JSON-able) from which source text is rendered."""
    units = []
    for i in range(nunits):
        forms, calls = _unit(rng, i)
        units.append({"forms": forms, "calls": calls})
    return {"ns": nsname, "units": units}


def render(desc, version):
    """Source text of `desc` at `version`: only the value of `version-marker` differs between
    versions, so an edit keeps the file size (for version < 10) unless the caller pads it."""
    out = [f"(ns {desc['ns']} (:require [basilisp.string :as str] [basilisp.set :as cset]))",
           "(def version-marker-probe :probe)"]
    n = 0
    for u in desc["units"]:
        out.extend(u["forms"])
        out.append(f'(.append (. (python/__import__ "verif_fx") -effects) {n})')
        n += 1
    out.append(f"(def version-marker {version})")
    out.append(f'(.append (. (python/__import__ "verif_fx") -effects) {n})')
    return "\n".join(out) + "\n"


def n_effects(desc):
    return len(desc["units"]) + 1
