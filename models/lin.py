"""Wing-Gong style linearizability search against a small sequential model.

history: list of Op(id, inv, ret, payload, result) with global event sequence numbers
model:   step(state, op) -> iterable of (new_state, note) for every way the observed
         result of `op` is explained by applying it in `state` (empty = impossible)
final:   predicate(state, notes) checked on complete linearizations
"""


class Op:
    __slots__ = ("id", "task", "inv", "ret", "kind", "args", "result")

    def __init__(self, id, task, inv, ret, kind, args, result):
        self.id = id
        self.task = task
        self.inv = inv
        self.ret = ret
        self.kind = kind
        self.args = args
        self.result = result

    def __repr__(self):
        return f"Op({self.id},{self.task},{self.kind},{self.args},inv={self.inv},ret={self.ret},res={self.result})"

    def to_json(self):
        return {"id": self.id, "task": self.task, "kind": self.kind, "args": self.args,
                "inv": self.inv, "ret": self.ret, "result": self.result}


class SearchBudget(Exception):
    pass


def linearize(ops, init_state, step, final=None, budget=200000, hashable_state=True):
    """Return (order, notes) of one valid linearization or None."""
    n = len(ops)
    ops = sorted(ops, key=lambda o: o.inv)
    nodes = [0]
    dead = set()

    def rec(done_mask, state, order, notes):
        nodes[0] += 1
        if nodes[0] > budget:
            raise SearchBudget()
        if done_mask == (1 << n) - 1:
            if final is None or final(state, notes):
                return order, notes
            return None
        key = None
        if final is None and hashable_state:
            key = (done_mask, state)
            if key in dead:
                return None
        # minimal ret among not-yet-linearized ops bounds which ops may go next
        min_ret = None
        for i in range(n):
            if not done_mask >> i & 1:
                r = ops[i].ret
                if min_ret is None or r < min_ret:
                    min_ret = r
        for i in range(n):
            if done_mask >> i & 1:
                continue
            o = ops[i]
            if o.inv > min_ret:
                break          # sorted by inv: all later ops were invoked after some pending op returned
            for new_state, note in step(state, o):
                res = rec(done_mask | (1 << i), new_state, order + [o.id], notes + [note])
                if res is not None:
                    return res
        if key is not None:
            dead.add(key)
        return None

    return rec(0, init_state, [], [])
