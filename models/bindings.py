"""Reference model + Lisp emitter for C11 binding programs.

A program is a list of nodes (JSON):
  ["probe", id]
  ["binding", form, pairs, body, fault]   form in binding|with-bindings|py-bindings
                                          pairs = [[var, val], ...]; fault = None |
                                          ["nondyn", pos] | ["reject", var]
  ["set", var, val]
  ["try", id, body]
  ["throw"]
  ["root", var, val]
  ["redefs", var, val, body]              (with-redefs [var val] body) by the designated root-changing thread
  ["future", body, after]                 body runs in a pool thread with the creator's
                                          bindings; `after` runs in the creator before deref
  ["boundfn", body]                       bound-fn run on a fresh thread, joined
  ["pmap", n, body]                       (doall (pmap (fn [i] body) (range n)))
  ["latefut", pairs, body]                future created inside (with-bindings pairs ...) which the creator
                                          LEAVES before the body starts (gated by a promise)
  ["refut", pairs, body, how]             bound fn made in the current context, then passed AS IT IS to future-call /
                                          bound-fn* inside (with-bindings pairs ...): both contexts reach the worker
  ["bflocal", body, after]                bound-fn created, creator runs `after`, then calls it
                                          on the SAME thread: it must still see creation-time values

The model computes, for every probe id, the triple a correct implementation must
observe: a concrete value where the Var is thread-bound, ROOT where the root is read.
"""
VARS = ["*a*", "*b*", "*c*"]
ROOT = "ROOT"
REJECT = -1


class ModelThrow(Exception):
    def __init__(self, kind):
        self.kind = kind


class Model:
    def __init__(self):
        self.expect = {}        # probe id -> (triple, context, count)
        self.caught = {}        # try id -> number of times its catch clause must run
        self.failed_push_before = {}   # probe id -> bool (a push failed earlier in the same thread)

    def lookup(self, env, var):
        for fr in reversed(env):
            if var in fr:
                return fr[var]
        return ROOT

    def flat(self, env):
        out = {}
        for fr in env:
            out.update(fr)
        return out

    def run(self, nodes, env, ctx):
        for n in nodes:
            self.node(n, env, ctx)

    def node(self, n, env, ctx):
        t = n[0]
        if t == "probe":
            triple = tuple(self.lookup(env, v) for v in VARS)
            prev = self.expect.get(n[1])
            cnt = 1 if prev is None else prev[2] + 1
            self.expect[n[1]] = (triple, ctx["kind"], cnt)
            self.failed_push_before[n[1]] = ctx["failed"][0]
        elif t == "binding":
            _, form, pairs, body, fault = n
            if fault is not None:
                ctx["failed"][0] = True
                raise ModelThrow("push")
            env.append({v: val for v, val in pairs})
            try:
                self.run(body, env, ctx)
            finally:
                env.pop()
        elif t == "set":
            if n[1] == "*b*" and n[2] == REJECT:
                # the validator rejects the value: set! raises and nothing changes
                raise ModelThrow("set-reject")
            for fr in reversed(env):
                if n[1] in fr:
                    fr[n[1]] = n[2]
                    break
            else:
                raise AssertionError("generator produced set! on an unbound var")
        elif t == "try":
            try:
                self.run(n[2], env, ctx)
                self.caught.setdefault(n[1], 0)
            except ModelThrow:
                self.caught[n[1]] = self.caught.get(n[1], 0) + 1
        elif t == "throw":
            raise ModelThrow("throw")
        elif t == "root":
            pass
        elif t == "redefs":
            # with-redefs changes ROOTS (tracked by the check from its events), never this thread's bindings
            self.run(n[3], env, ctx)
        elif t == "future":
            child = [dict(self.flat(env))]
            cctx = {"kind": "conveyed", "failed": [False]}
            err = None
            try:
                self.run(n[1], child, cctx)
            except ModelThrow as e:
                err = e
            self.run(n[2], env, ctx)
            if err is not None:
                raise ModelThrow("child")
        elif t == "latefut":
            # future created INSIDE a with-bindings form that the creator has LEFT before the body runs
            child = [dict(self.flat(env + [{v: val for v, val in n[1]}]))]
            cctx = {"kind": "conveyed", "failed": [False]}
            self.run(n[2], child, cctx)
        elif t == "refut":
            # bound fn made HERE (context A = env), handed as it is to future-call / bound-fn* inside
            # (with-bindings pairs ...) (context B): the worker gets B's bindings and, on top, A's snapshot
            child = [dict(self.flat(env + [{v: val for v, val in n[1]}])), dict(self.flat(env))]
            cctx = {"kind": "conveyed", "failed": [False]}
            self.run(n[2], child, cctx)
        elif t == "boundfn":
            child = [dict(self.flat(env))]
            cctx = {"kind": "conveyed", "failed": [False]}
            self.run(n[1], child, cctx)      # may raise: propagates to the creator at join
        elif t == "bflocal":
            snap = dict(self.flat(env))          # captured where the bound-fn is created
            self.run(n[2], env, ctx)             # creator carries on (may set!, leave scopes)
            env.append(snap)                     # ... then calls it on the same thread
            try:
                self.run(n[1], env, ctx)
            finally:
                env.pop()
        elif t == "pmap":
            err = None
            for _ in range(n[1]):
                child = [dict(self.flat(env))]
                cctx = {"kind": "conveyed", "failed": [False]}
                try:
                    self.run(n[2], child, cctx)
                except ModelThrow as e:
                    err = e
            if err is not None:
                raise ModelThrow("child")
        else:
            raise ValueError(t)


def evaluate(program):
    m = Model()
    ctx = {"kind": "plain", "failed": [False]}
    m.run(program, [], ctx)      # generator guarantees the top level never throws
    return m


# ------------------------------------------------------------------ emitter

_ctr = [0]


def emit_program(nodes):
    _ctr[0] = 0
    return "(fn [] " + emit(nodes) + " nil)"


def emit(nodes):
    return " ".join(_emit(n) for n in nodes) or "nil"


def _pairs_text(pairs, fault, as_map):
    items = [[f"(var {v})" if as_map else v, str(val)] for v, val in pairs]
    if fault is not None and fault[0] == "nondyn":
        items.insert(min(fault[1], len(items)), ["(var nd)" if as_map else "nd", "77"])
    return " ".join(f"{a} {b}" for a, b in items)


def _emit(n):
    t = n[0]
    if t == "probe":
        return f"(probe! {n[1]} (pstart!) *a* *b* *c*)"
    if t == "binding":
        _, form, pairs, body, fault = n
        b = emit(body)
        if form == "binding":
            return f"(binding [{_pairs_text(pairs, fault, False)}] {b})"
        if form == "with-bindings":
            return f"(with-bindings (hash-map {_pairs_text(pairs, fault, True)}) {b})"
        return f"(py-bindings! (hash-map {_pairs_text(pairs, fault, True)}) (fn [] {b}))"
    if t == "set":
        return f"(set! {n[1]} {n[2]})"
    if t == "try":
        return f"(try {emit(n[2])} (catch python/Exception _ (caught! {n[1]})))"
    if t == "throw":
        return '(throw (ex-info "boom" {}))'
    if t == "root":
        return f"(root! (var {n[1]}) {n[2]})"
    if t == "redefs":
        return f'(py-redefs! "{n[1]}" {n[2]} (fn [] {emit(n[3])}))'
    if t == "future":
        _ctr[0] += 1
        nm = f"fut_{_ctr[0]}"
        return f"(let [{nm} (future {emit(n[1])})] {emit(n[2])} (deref {nm}))"
    if t == "latefut":
        _ctr[0] += 1
        nm = f"lf_{_ctr[0]}"
        return (f"(let [gate_{nm} (promise) {nm} (with-bindings (hash-map {_pairs_text(n[1], None, True)}) "
                f"(future (deref gate_{nm}) {emit(n[2])}))] (deliver gate_{nm} true) (deref {nm}))")
    if t == "refut":
        _ctr[0] += 1
        nm = f"rbf_{_ctr[0]}"
        m = f"(hash-map {_pairs_text(n[1], None, True)})"
        if n[3] == "future-call":
            return f"(let [{nm} (bound-fn [] {emit(n[2])})] (with-bindings {m} (deref (future-call {nm}))))"
        return f"(let [{nm} (bound-fn [] {emit(n[2])})] (run-thread! (with-bindings {m} (bound-fn* {nm}))))"
    if t == "boundfn":
        return f"(run-thread! (bound-fn [] {emit(n[1])}))"
    if t == "bflocal":
        _ctr[0] += 1
        nm = f"bf_{_ctr[0]}"
        return f"(let [{nm} (bound-fn [] {emit(n[1])})] {emit(n[2])} ({nm}))"
    if t == "pmap":
        return f"(doall (pmap (fn [_i] {emit(n[2])}) (range {n[1]})))"
    raise ValueError(t)
