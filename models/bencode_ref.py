"""20-line reference bencode codec (independent of basilisp.contrib.bencode)."""


def encode(v):
    if isinstance(v, bool):
        raise TypeError("bool")
    if isinstance(v, int):
        return b"i%de" % v
    if isinstance(v, bytes):
        return b"%d:%s" % (len(v), v)
    if isinstance(v, str):
        return encode(v.encode("utf-8"))
    if isinstance(v, (list, tuple)):
        return b"l" + b"".join(encode(x) for x in v) + b"e"
    if isinstance(v, dict):
        items = sorted((k.encode("utf-8") if isinstance(k, str) else k, x) for k, x in v.items())
        return b"d" + b"".join(encode(k) + encode(x) for k, x in items) + b"e"
    raise TypeError(type(v))


class Incomplete(Exception):
    pass


def _dec(b, i):
    if i >= len(b):
        raise Incomplete
    c = b[i:i + 1]
    if c == b"i":
        j = b.find(b"e", i)
        if j < 0:
            raise Incomplete
        return int(b[i + 1:j]), j + 1
    if c == b"l":
        i += 1
        out = []
        while True:
            if i >= len(b):
                raise Incomplete
            if b[i:i + 1] == b"e":
                return out, i + 1
            v, i = _dec(b, i)
            out.append(v)
    if c == b"d":
        i += 1
        out = {}
        while True:
            if i >= len(b):
                raise Incomplete
            if b[i:i + 1] == b"e":
                return out, i + 1
            k, i = _dec(b, i)
            v, i = _dec(b, i)
            out[k] = v
    j = b.find(b":", i)
    if j < 0:
        raise Incomplete
    n = int(b[i:j])
    if j + 1 + n > len(b):
        raise Incomplete
    return b[j + 1:j + 1 + n], j + 1 + n


def decode_all(b):
    """-> (values, rest) where byte strings stay bytes and dict keys are bytes."""
    vals = []
    i = 0
    while i < len(b):
        try:
            v, j = _dec(b, i)
        except (Incomplete, ValueError):
            break
        vals.append(v)
        i = j
    return vals, b[i:]


def coerce(v):
    """What decoding (with no options) of encode(v) must give: strings/keys become bytes."""
    if isinstance(v, str):
        return v.encode("utf-8")
    if isinstance(v, (list, tuple)):
        return [coerce(x) for x in v]
    if isinstance(v, dict):
        return {(k.encode("utf-8") if isinstance(k, str) else k): coerce(x) for k, x in v.items()}
    return v
