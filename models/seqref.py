"""Reference semantics of lazy-sequence pipeline stages (C06).

Every stage is written as a Python generator that pulls from its input *as late as any
implementation could*: it asks for input element i only when the output element being
produced (or the answer "the output ends here") cannot be decided without it.  From the
generator two things are derived mechanically for a concrete finite input:

  ref(stage, inp)        -> the list of output elements
  need_table(stage, inp) -> t with t[j] = largest input index that has to be known for
                            output index j (j == len(out) stands for "the end of the
                            output must be known"); len(inp) as a value means "the end of
                            the input must have been seen"; -1 means "nothing".

so the demand oracle ("nothing is computed beyond what some consumer has demanded") and the
element oracle come from one definition.  Stages whose implementation in basilisp looks at
its argument when the stage is *created* (mapcat and cycle, exactly like their Clojure
originals: `apply` has to look at its last argument, cycle tests for emptiness) carry
CREATE_NEED = 0: creating them may realize input element 0.
"""

END = object()

# constants shared with the check (the same numbers are used to build the real pipeline)
TAKE_K = 3
DROP_K = 2
MAP2_VEC = [100, 200, 300, 400]
ILV_VEC = [101, 201, 301, 401, 501]
SUFFIX = [9000, 9010]
PREFIX = [9100, 9110]
SEP = 7777
NTH = 2
PART_N = 2
PART_STEP = 3
DROPLAST_N = 2
CYCLE_TAKE = 7


def pred(x):
    return x % 20 == 0


def tw(x):
    return x < 45


def dw(x):
    return x < 25


def keepf(x):
    return None if x % 30 == 10 else x + 2


def mapf(x):
    return x + 1


def catf(x):
    return [] if x % 40 == 30 else [x, x + 1]


def idxf(i, x):
    return i * 1000 + x


def kidxf(i, x):
    return x + 3 if i % 2 else None


def quant(x):
    return x // 20 * 20


def pbf(x):
    return x // 30


class Puller:
    """Iterator over a finite list that remembers the largest index asked for."""

    def __init__(self, items):
        self.items = items
        self.touched = -1

    def pull(self):
        self.touched += 1
        if self.touched < len(self.items):
            return self.items[self.touched]
        self.touched = len(self.items)
        return END

    def peek_done(self):
        return self.touched >= len(self.items)


def _map(p):
    while True:
        x = p.pull()
        if x is END:
            return
        yield mapf(x)


def _filter(p):
    while True:
        x = p.pull()
        if x is END:
            return
        if pred(x):
            yield x


def _remove(p):
    while True:
        x = p.pull()
        if x is END:
            return
        if not pred(x):
            yield x


def _keep(p):
    while True:
        x = p.pull()
        if x is END:
            return
        v = keepf(x)
        if v is not None:
            yield v


def _concat(p):
    while True:
        x = p.pull()
        if x is END:
            break
        yield x
    yield from SUFFIX


def _concat_pre(p):
    yield from PREFIX
    while True:
        x = p.pull()
        if x is END:
            return
        yield x


def _take(p):
    for _ in range(TAKE_K):
        x = p.pull()
        if x is END:
            return
        yield x


def _drop(p):
    for _ in range(DROP_K):
        if p.pull() is END:
            return
    while True:
        x = p.pull()
        if x is END:
            return
        yield x


def _take_while(p):
    while True:
        x = p.pull()
        if x is END or not tw(x):
            return
        yield x


def _drop_while(p):
    while True:
        x = p.pull()
        if x is END:
            return
        if not dw(x):
            yield x
            break
    while True:
        x = p.pull()
        if x is END:
            return
        yield x


def _map2(p):
    # which of the two collections is asked first is the implementation's business: the permissive
    # order (input first) is taken, so the end of the output may cost one more input element
    i = 0
    while True:
        a = p.pull()
        if a is END or i >= len(MAP2_VEC):
            return
        yield a + MAP2_VEC[i]
        i += 1


def _mapcat(p):
    while True:
        x = p.pull()
        if x is END:
            return
        yield from catf(x)


def _interleave(p):
    i = 0
    while True:
        a = p.pull()
        if a is END or i >= len(ILV_VEC):
            return
        yield a
        yield ILV_VEC[i]
        i += 1


def _map_indexed(p):
    i = 0
    while True:
        x = p.pull()
        if x is END:
            return
        yield idxf(i, x)
        i += 1


def _keep_indexed(p):
    i = 0
    while True:
        x = p.pull()
        if x is END:
            return
        v = kidxf(i, x)
        i += 1
        if v is not None:
            yield v


def _take_nth(p):
    x = p.pull()
    while x is not END:
        yield x
        for _ in range(NTH):
            x = p.pull()
            if x is END:
                return


def _interpose(p):
    x = p.pull()
    if x is END:
        return
    yield x
    while True:
        x = p.pull()
        if x is END:
            return
        yield SEP
        yield x


def _distinct(p):
    seen = set()
    while True:
        x = p.pull()
        if x is END:
            return
        q = quant(x)
        if q not in seen:
            seen.add(q)
            yield q


def _dedupe(p):
    prev = END
    while True:
        x = p.pull()
        if x is END:
            return
        q = quant(x)
        if q != prev:
            prev = q
            yield q


def _drop_last(p):
    buf = []
    while True:
        x = p.pull()
        if x is END:
            return
        buf.append(x)
        if len(buf) > DROPLAST_N:
            yield buf.pop(0)


def _cycle(p):
    """(take CYCLE_TAKE (cycle s))"""
    items = []
    out = 0
    while out < CYCLE_TAKE:
        x = p.pull()
        if x is END:
            break
        items.append(x)
        yield x
        out += 1
    if not items:
        return
    i = 0
    while out < CYCLE_TAKE:
        yield items[i % len(items)]
        i += 1
        out += 1


def _partition(p):
    """(partition PART_N s), every partition walked to its end by the consumer."""
    while True:
        part = []
        for _ in range(PART_N):
            x = p.pull()
            if x is END:
                return
            part.append(x)
        yield part


def _partition_step(p):
    """(partition PART_N PART_STEP s)"""
    first = True
    while True:
        if not first:
            for _ in range(PART_STEP - PART_N):
                if p.pull() is END:
                    return
        first = False
        part = []
        for _ in range(PART_N):
            x = p.pull()
            if x is END:
                return
            part.append(x)
        yield part


def _partition_all(p):
    while True:
        x = p.pull()
        if x is END:
            return
        part = [x]
        for _ in range(PART_N - 1):
            x = p.pull()
            if x is END:
                break
            part.append(x)
        yield part
        if x is END:
            return


def _partition_by(p):
    x = p.pull()
    while x is not END:
        key = pbf(x)
        run = [x]
        while True:
            x = p.pull()
            if x is END or pbf(x) != key:
                break
            run.append(x)
        yield run


def _flatten(p):
    while True:
        x = p.pull()
        if x is END:
            return
        yield x


STAGES = {
    "map": _map, "filter": _filter, "remove": _remove, "keep": _keep, "concat": _concat, "concat-pre": _concat_pre,
    "lazy-cat": _concat, "take": _take, "drop": _drop, "take-while": _take_while, "drop-while": _drop_while,
    "map2": _map2, "mapcat": _mapcat, "interleave": _interleave, "map-indexed": _map_indexed,
    "keep-indexed": _keep_indexed, "take-nth": _take_nth, "interpose": _interpose, "distinct": _distinct,
    "dedupe": _dedupe, "drop-last": _drop_last, "cycle": _cycle, "partition": _partition,
    "partition-step": _partition_step, "partition-all": _partition_all, "partition-by": _partition_by,
    "flatten": _flatten,
}

# stages that may only come last in a pipeline (their elements are sequences, not ints)
LAST_ONLY = {"partition", "partition-step", "partition-all", "partition-by"}
# creating the stage may realize this input index (see module docstring)
CREATE_NEED = {"mapcat": 0, "cycle": 0}
# stages whose instrumented fn is NOT called at most once per input element by design
FN_NOT_ONCE = {"partition-by"}


def ref(stage, inp):
    return list(STAGES[stage](Puller(list(inp))))


def need_table(stage, inp):
    p = Puller(list(inp))
    g = STAGES[stage](p)
    t = []
    while True:
        try:
            next(g)
        except StopIteration:
            t.append(p.touched)
            return t
        t.append(p.touched)


def need(table, j):
    """Input index needed for output index j (j < 0: nothing; j beyond the table: the end)."""
    if j < 0:
        return -1
    return table[min(j, len(table) - 1)]
