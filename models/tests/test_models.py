"""Ordinary unit tests of OUR reference models (not of basilisp)."""
import os
import sys

sys.path.insert(0, os.path.dirname(os.path.dirname(os.path.dirname(os.path.abspath(__file__)))))
from models import bencode_ref as REF, bindings as M, lin  # noqa: E402


def test_bencode_roundtrip_and_cuts():
    msgs = [{"op": "eval", "id": "1", "code": "(+ 1 2)"}, 42, -7, b"", b"4:spam", [1, [2, b"x"], {}], "dé"]
    stream = b"".join(REF.encode(m) for m in msgs)
    vals, rest = REF.decode_all(stream)
    assert vals == [REF.coerce(m) for m in msgs] and rest == b""
    ends = []
    acc = 0
    for m in msgs:
        acc += len(REF.encode(m))
        ends.append(acc)
    for c in range(len(stream) + 1):
        vals, rest = REF.decode_all(stream[:c])
        n = sum(1 for e in ends if e <= c)
        assert len(vals) == n
        assert rest == stream[(ends[n - 1] if n else 0):c]


def test_bencode_dict_keys_sorted():
    assert REF.encode({"b": 1, "a": 2}) == b"d1:ai2e1:bi1ee"


def _op(i, inv, ret, kind, args, result):
    return lin.Op(i, "t", inv, ret, kind, args, result)


def test_linearize_register():
    def step(state, o):
        if o.kind == "w":
            return [(o.args, None)]
        return [(state, None)] if o.result == state else []
    # two overlapping writes, a read that sees the first-invoked one: linearizable
    ops = [_op("a", 1, 4, "w", 1, None), _op("b", 2, 3, "w", 2, None), _op("r", 5, 6, "r", None, 1)]
    assert lin.linearize(ops, 0, step) is not None
    # read after both writes completed sees a value never written: not linearizable
    ops[2] = _op("r", 5, 6, "r", None, 7)
    assert lin.linearize(ops, 0, step) is None
    # real-time order: w1 completes before w2 starts, later read cannot see w1
    ops = [_op("a", 1, 2, "w", 1, None), _op("b", 3, 4, "w", 2, None), _op("r", 5, 6, "r", None, 1)]
    assert lin.linearize(ops, 0, step) is None


def test_bindings_model():
    prog = [["probe", 1],
            ["binding", "binding", [["*a*", 5]], [["probe", 2], ["set", "*a*", 6], ["probe", 3],
                                                  ["future", [["probe", 4], ["set", "*a*", 9], ["probe", 5]], [["set", "*a*", 7]]],
                                                  ["probe", 6]], None],
            ["try", 1, [["binding", "binding", [["*b*", 1]], [["probe", 7]], ["nondyn", 0]]]],
            ["probe", 8]]
    m = M.evaluate(prog)
    R = M.ROOT
    assert m.expect[1][0] == (R, R, R)
    assert m.expect[2][0] == (5, R, R)
    assert m.expect[3][0] == (6, R, R)
    assert m.expect[4][0] == (6, R, R)      # conveyed at creation, before the creator's later set!
    assert m.expect[5][0] == (9, R, R)
    assert m.expect[6][0] == (7, R, R)      # the child's set! is invisible to the creator
    assert 7 not in m.expect                # body of a binding whose push fails never runs
    assert m.caught == {1: 1}
    assert m.expect[8][0] == (R, R, R)
    text = M.emit_program(prog)
    assert "(binding [nd 77 *b* 1]" in text and "(deref fut_1)" in text


# ---------------------------------------------------------------- seqref (C06 pipeline stages)

from models import seqref as SR  # noqa: E402


def _old_ref(stage, inp):
    """The closed forms the C06 check used before the generator-based reference (kept as a cross-check)."""
    if stage == "map":
        return [x + 1 for x in inp]
    if stage == "filter":
        return [x for x in inp if SR.pred(x)]
    if stage == "concat":
        return list(inp) + [9000, 9010]
    if stage == "take":
        return list(inp[:SR.TAKE_K])
    if stage == "drop":
        return list(inp[SR.DROP_K:])
    if stage == "take-while":
        out = []
        for x in inp:
            if not SR.tw(x):
                break
            out.append(x)
        return out
    if stage == "map2":
        return [a + b for a, b in zip(inp, SR.MAP2_VEC)]
    if stage == "keep":
        return [SR.keepf(x) for x in inp if SR.keepf(x) is not None]
    raise ValueError(stage)


def _old_need(stage, inp, j):
    n = len(inp)
    if stage == "map":
        return min(j, n)
    if stage == "filter":
        idx = [i for i, x in enumerate(inp) if SR.pred(x)]
        return idx[j] if j < len(idx) else n
    if stage == "keep":
        idx = [i for i, x in enumerate(inp) if SR.keepf(x) is not None]
        return idx[j] if j < len(idx) else n
    if stage == "concat":
        return j if j < n else n
    if stage == "take":
        return min(j, SR.TAKE_K - 1, n)
    if stage == "drop":
        return min(j + SR.DROP_K, n)
    if stage == "take-while":
        ref = _old_ref(stage, inp)
        return j if j < len(ref) else min(len(ref), n)
    if stage == "map2":
        return min(j, len(SR.MAP2_VEC), n)
    raise ValueError(stage)


def test_seqref_agrees_with_closed_forms():
    for n in range(0, 9):
        inp = [10 * i for i in range(n)]
        for stage in ("map", "filter", "concat", "take", "drop", "take-while", "map2", "keep"):
            assert SR.ref(stage, inp) == _old_ref(stage, inp), (stage, n)
            t = SR.need_table(stage, inp)
            for j in range(0, n + 4):
                assert SR.need(t, j) == _old_need(stage, inp, j), (stage, n, j, t)


def test_seqref_tables_are_monotone_and_bounded():
    for n in range(0, 9):
        inp = [10 * i for i in range(n)]
        for stage in SR.STAGES:
            out = SR.ref(stage, inp)
            t = SR.need_table(stage, inp)
            assert len(t) == len(out) + 1
            assert all(a <= b for a, b in zip(t, t[1:])), (stage, n, t)
            assert all(-1 <= x <= n for x in t)
            assert SR.need(t, -1) == -1 and SR.need(t, 10 ** 6) == t[-1]


def test_seqref_examples():
    inp = [0, 10, 20, 30, 40]
    assert SR.ref("interpose", inp) == [0, 7777, 10, 7777, 20, 7777, 30, 7777, 40]
    assert SR.need_table("interpose", inp)[:3] == [0, 1, 1]          # the first element needs only itself
    assert SR.ref("partition-step", inp) == [[0, 10], [30, 40]]
    assert SR.need_table("partition-step", inp) == [1, 4, 5]
    assert SR.ref("partition-all", inp) == [[0, 10], [20, 30], [40]]
    assert SR.ref("partition-by", [0, 10, 20, 30, 40, 50, 60]) == [[0, 10, 20], [30, 40, 50], [60]]
    assert SR.need_table("partition-by", [0, 10, 20, 30]) == [3, 4, 4]
    assert SR.ref("cycle", [0, 10]) == [0, 10, 0, 10, 0, 10, 0]
    assert SR.need_table("cycle", [0, 10])[:4] == [0, 1, 2, 2]
    assert SR.ref("mapcat", [0, 10, 30, 40]) == [0, 1, 10, 11, 40, 41]
    assert SR.need_table("concat-pre", inp)[:4] == [-1, -1, 0, 1]
    assert SR.ref("drop-last", inp) == [0, 10, 20] and SR.need_table("drop-last", inp) == [2, 3, 4, 5]
    assert SR.ref("take-nth", inp) == [0, 20, 40] and SR.need_table("take-nth", inp) == [0, 2, 4, 5]
    assert SR.ref("dedupe", [0, 10, 20, 30, 40]) == [0, 20, 40]
