"""Ordinary unit tests of OUR reference models (not of basilisp)."""
import os
import sys

sys.path.insert(0, os.path.dirname(os.path.dirname(os.path.dirname(os.path.abspath(__file__)))))
from models import bencode_ref as REF, bindings as M, lin  # noqa: E402


def test_bencode_roundtrip_and_cuts():
    msgs = [{"op": "eval", "id": "1", "code": "(+ 1 2)"}, 42, -7, b"", b"4:spam", [1, [2, b"x"], {}], "dé"]
    stream = b"".join(REF.encode(m) for m in msgs)
    vals, rest = REF.decode_all(stream)
    assert vals == [REF.coerce(m) for m in msgs] and rest == b""
    ends = []
    acc = 0
    for m in msgs:
        acc += len(REF.encode(m))
        ends.append(acc)
    for c in range(len(stream) + 1):
        vals, rest = REF.decode_all(stream[:c])
        n = sum(1 for e in ends if e <= c)
        assert len(vals) == n
        assert rest == stream[(ends[n - 1] if n else 0):c]


def test_bencode_dict_keys_sorted():
    assert REF.encode({"b": 1, "a": 2}) == b"d1:ai2e1:bi1ee"


def _op(i, inv, ret, kind, args, result):
    return lin.Op(i, "t", inv, ret, kind, args, result)


def test_linearize_register():
    def step(state, o):
        if o.kind == "w":
            return [(o.args, None)]
        return [(state, None)] if o.result == state else []
    # two overlapping writes, a read that sees the first-invoked one: linearizable
    ops = [_op("a", 1, 4, "w", 1, None), _op("b", 2, 3, "w", 2, None), _op("r", 5, 6, "r", None, 1)]
    assert lin.linearize(ops, 0, step) is not None
    # read after both writes completed sees a value never written: not linearizable
    ops[2] = _op("r", 5, 6, "r", None, 7)
    assert lin.linearize(ops, 0, step) is None
    # real-time order: w1 completes before w2 starts, later read cannot see w1
    ops = [_op("a", 1, 2, "w", 1, None), _op("b", 3, 4, "w", 2, None), _op("r", 5, 6, "r", None, 1)]
    assert lin.linearize(ops, 0, step) is None


def test_bindings_model():
    prog = [["probe", 1],
            ["binding", "binding", [["*a*", 5]], [["probe", 2], ["set", "*a*", 6], ["probe", 3],
                                                  ["future", [["probe", 4], ["set", "*a*", 9], ["probe", 5]], [["set", "*a*", 7]]],
                                                  ["probe", 6]], None],
            ["try", 1, [["binding", "binding", [["*b*", 1]], [["probe", 7]], ["nondyn", 0]]]],
            ["probe", 8]]
    m = M.evaluate(prog)
    R = M.ROOT
    assert m.expect[1][0] == (R, R, R)
    assert m.expect[2][0] == (5, R, R)
    assert m.expect[3][0] == (6, R, R)
    assert m.expect[4][0] == (6, R, R)      # conveyed at creation, before the creator's later set!
    assert m.expect[5][0] == (9, R, R)
    assert m.expect[6][0] == (7, R, R)      # the child's set! is invisible to the creator
    assert 7 not in m.expect                # body of a binding whose push fails never runs
    assert m.caught == {1: 1}
    assert m.expect[8][0] == (R, R, R)
    text = M.emit_program(prog)
    assert "(binding [nd 77 *b* 1]" in text and "(deref fut_1)" in text
