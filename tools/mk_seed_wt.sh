#!/bin/sh
# usage: mk_seed_wt.sh <PROP> <suffix>  -> scratch worktree /tmp/seed-<PROP>-<suffix> of /repo HEAD with a native
# extension built from the current rust sources and the property text (nothing from /verif besides that text).
P=$1; S=$2; WT=/tmp/seed-$P-$S
git -C /repo worktree add --detach $WT HEAD >/dev/null 2>&1 || exit 1
SO=$(/venv/bin/python -c "import sys; sys.path.insert(0,'/verif'); from sim import bootstrap as B; print(B.ensure_native(verbose=False))" 2>/dev/null | tail -1)   # built from /repo's CURRENT rust sources
cp "$SO" $WT/src/basilisp/_lang.abi3.so
/venv/bin/python - $P $WT <<'PY'
import json, sys
for l in open('/verif/properties.jsonl'):
    d = json.loads(l)
    if d['id'] == sys.argv[1]:
        open(sys.argv[2] + '/PROPERTY.txt', 'w').write(
            f"{d['title']}\n\nStatement: {d['statement']}\n\nQuantified over: {d['quantifier']['text']}\n\n"
            f"Why the existing tests cannot settle it: {d['why_tests_cant']}\n\nAnchored in: {json.dumps(d['anchors'], indent=1)}\n")
PY
echo $WT
