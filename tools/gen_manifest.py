#!/venv/bin/python
"""Regenerates MANIFEST.json from the table below (kept in one place so it stays valid)."""
import json, os, sys
V = os.path.dirname(os.path.dirname(os.path.abspath(__file__)))

NA = {
 "C01": "pure: compile+run of a closed program is a deterministic function of its text and compiler flags; no schedule, clock, stream or stored state enters analyzer/generator (DESIGN 4)",
 "C02": "pure: evaluation order is a property of one sequential execution of generated code; nothing to interleave or fail (DESIGN 4)",
 "C03": "pure: lrepr/read-string round trip is a function of the value; no thread, clock, stream or fault surface (DESIGN 4)",
 "C04": "pure: persistent collections are immutable values with no lock, cache or I/O; a branching op history against a model is model-based testing, not simulation (DESIGN 4)",
 "C05": "pure: equality/hash consistency is a relation on pairs and triples of values (DESIGN 4)",
 "C07": "pure: transducer/seq agreement is single-threaded algebra; laziness under threads is decided by C06 (DESIGN 4)",
 "C08": "pure: arity dispatch, apply and recur are functions of the call; the one defect of this family met (recur with a nil rest arg) surfaced through C12's CAS-retry schedules and is fixed and guarded there (DESIGN 4)",
 "C09": "pure: syntax-quote and destructuring are functions of form + namespace state at read time (DESIGN 4)",
 "C10": "pure: name resolution, munging and direct-linking are compile-time functions of a sequential def/require history (DESIGN 4)",
 "C15": "pure: the optimizer is an AST->AST pass (DESIGN 4)",
 "C16": "pure: reading is a function of the complete input string; prefixes are inputs, not crash points of a delivery loop (DESIGN 4)",
 "C17": "pure: compare/sort properties are relations on values (DESIGN 4)",
 "C20": "pure: exact arithmetic identities (DESIGN 4)",
}
PENDING = {k: "simulation target (DESIGN 3) whose check is still being built in this session; not claimed until its check is registered" for k in ("C06", "C11", "C13", "C14", "C18", "C19")}

CHECKS = {
 "C14": dict(engine="procsim", category="fault_enumeration", design="DESIGN.md section 3 (C14)",
   technique="deterministic simulation over process incarnations: a seeded controller drives real interpreter incarnations (per-incarnation PYTHONHASHSEED) sharing a scratch disk, injecting crashes inside the cache write, cache damage, source edits and mtime clock jumps; plus exhaustive truncation points at the decode layer",
   text="A run is a seeded history over one generated namespace: write source, load, then edits (mtime and/or size, clock jumping back), damage to the cache file (truncation anywhere, empty, header-only, magic, mtime/size +-1, delete), loads that lose power or get ENOSPC after k bytes of the cache write, loads during which the source is edited (after read+compile, before the cache write), loads followed by an edit and a reload in the same process (the cache is then written by a process that already holds the namespace), and clean loads - every load in a real interpreter incarnation forked from a booted basilisp of one of four hash seeds (0 = hash randomisation off, 11, 22, 33), through the real import machinery. Oracles after every judged load: snapshot (Vars, metadata, canonical values, keyword interning, recorded calls) equals a from-source reference incarnation under the same seed; an invalid cache is never executed, not even partly (effect log exactly one pass); the import succeeds; a valid cache is left behind. Every final cache file is cut at every proper prefix (exhaustive up to 20 KB quick / 150 KB thorough, dense sample beyond) through the real header+unmarshal function, and one representative of every exception class seen goes through the full import path. Thorough adds the bundled namespaces written under one seed, loaded under another and compared with from-source.",
   note="Trusted: crash model = a prefix of the intended bytes is durable (what the property states); fork of a booted interpreter stands for a fresh process of that hash seed; the snapshot canonicaliser; the debug Var *generated-python* (present only after a from-source compile, by design) is excluded. A load that was itself crashed is not judged."),
 "C19": dict(engine="netsim", category="fault_enumeration", design="DESIGN.md section 3 (C19)",
   technique="deterministic simulation of the nREPL socket loop on simulated stream sockets with seeded fragmentation/EOF/reset/send faults, plus exhaustive cut-point enumeration of generated bencode streams against a reference codec",
   text="Only the bencode/nREPL framing clause (and encode/decode identity as a side condition of the same runs) is decided; the EDN and JSON round-trip clauses are pure functions and are NOT claimed. Layer 1: every split position of every generated stream (1-6 messages over big/negative ints, byte strings in the alphabet '0-9:ilde-', arbitrary bytes, multi-byte UTF-8, nested lists/dicts, Python and basilisp containers) goes through the real decode-all: exactly the complete messages, untouched remainder, resumption with the suffix, k-way accumulation; encode is compared byte-for-byte with a 20-line reference. Layer 2: the real on-connect loop per connection (1-3 concurrent) on SimSockets under the baton scheduler: seeded fragment and recv sizes (1 byte .. coalesced), buffer sizes 1..1024, virtual delays, EOF or reset at a boundary or mid-message, failing sendall; responses must frame cleanly, carry exactly the ids of the completely sent requests in order with one final done each, nothing for a trailing partial request, correct eval values, no bytes crossing connections, every connection task terminating.",
   note="Trusted: reference codec, SimSocket semantics (reliable ordered stream; no loss/reordering injected). Exhaustive per stream at the decoder layer, sampled through the server loop. A change confined to edn.lpy/json.lpy is not detected by this check."),
 "C06": dict(engine="threadsim", category="exploration", design="DESIGN.md section 3 (C06)",
   technique="deterministic simulation: 2-3 real consumer threads over the real native LazySeq under a seeded baton scheduler, contended native-mutex acquisitions routed through a guarded hook; producer fault injection; reference pipeline + demand model",
   text="Seeded schedule search over 2-3 real threads walking one shared lazy sequence (instrumented lazy-seq cells, a single-use Python iterator, iterate f, repeatedly n f, or a re-iterable non-seq Python object handed raw to the first stage; under 0-3 stages drawn from 27: map, filter, remove, keep, concat as suffix/prefix/lazy-cat, take, drop, take-while, drop-while, two-collection map, mapcat, interleave, map-indexed, keep-indexed, take-nth, interpose, distinct, dedupe, drop-last, cycle, flatten, partition with and without step, partition-all, partition-by; each consumer reaches the shared head directly, through its own (lazy-seq head) wrapper, or through (with-meta head m)) with scripts of first/rest/next/seq/count/nth/iteration; producers yield, sleep in virtual time, throw on their first call, touch themselves or a later cell. The native per-cell mutex stays the arbiter: a failed try_lock calls the guarded hook which parks the thread in the kernel. Oracles: producer active<=1 per cell, at most one successful return, re-run only after a throw; every value read equals the pure reference pipeline; a producer exception reaches the consumer that triggered it and later accesses re-raise or yield the right element, never a shortened sequence; a producer starts only if the output index demanded so far needs it; pipeline fns run once per element; deadlock = kernel DEADLOCK. Plus a declared non-simulated real-thread probe (6 variants) of the blocking native wait that the hook bypasses.",
   note="Trusted: the reference stages in models/seqref.py (one minimal-pull generator per stage, from which element values AND the demand table are derived; mapcat and cycle may look at their argument's first element when created, as in Clojure), kernel spin semantics (a failed try-lock is retried after any real progress). The blocking slow path of the native mutex is NOT simulated; it is covered only by the real-thread probe, reported separately in the evidence. Needs hook commit c27de39 (guard BASILISP_VERIF_SIM)."),
 "C11": dict(engine="threadsim", category="exploration", design="DESIGN.md section 3 (C11)",
   technique="deterministic simulation: generated binding programs run on real threads and a real reused pool under a seeded baton scheduler, push faults injected, per-thread binding-stack reference model",
   text="Seeded search over generated programs (nested binding / with-bindings / runtime.bindings to depth 4, set!, try/throw, alter-var-root, with-redefs under a thread binding, future with creator work before deref, bound-fn on a fresh and on the same thread, pmap) executed by 1-3 real threads plus a real 1-3 worker pool with worker reuse; push faults (plain Var inside a multi-Var binding at every position, validator rejection) and body faults; the Var hash order that decides push order is a seeded permutation; every run gets Vars that no thread has ever bound, built by the real constructor. Every probe's observed (*a* *b* *c*) is compared with a per-thread binding-stack model; catch clauses, probe counts and a final probe on every pool worker are checked. The forms under test are compiled by the real compiler (helpers once per lane; 6% of runs compile the whole program).",
   note="Trusted: the 120-line binding-stack model, sim lock semantics; thread-locals are real because tasks are real threads. Root changes come from one designated thread and concurrent readers accept overlapping values."),
 "C18": dict(engine="threadsim", category="exploration", design="DESIGN.md section 3 (C18)",
   technique="deterministic simulation: op histories sequentially and spread over 2-4 real threads under a seeded baton scheduler, compared with a from-scratch instance and a closure reference model",
   text="Seeded search over histories of add/remove/remove-all/prefer/derive/underive/call on one multimethod (versioned method bodies; a per-run hierarchy atom, or in a quarter of the sequential runs the process-wide hierarchy through the 2-arity derive/underive; optional custom default value): 30% sequential (every dispatch value called after every op), 70% concurrent (1-2 mutators, 1-2 callers, edge-toggle scenarios, throwing dispatch fn) at line and opcode granularity, under 2 (quick) or 8 (thorough) PYTHONHASHSEED values. Oracles: O1 a fresh instance built from the current tables answers identically (after every op / after quiescence), also with reversed insertion order; O2 independent closure-model reference on undisputed cases; O3 every concurrent call is explained by a state version inside its invoke-return window; O4 isa?/parents/ancestors/descendants agree with the edge-set closure.",
   note="Trusted: the closure model (basilisp's documented class semantics: supers are ancestors, derive relations of superclasses are not inherited), sim Lock/RLock semantics. Mutual-dominance and non-transitive preference chains are treated as disputed and accepted either way."),
 "C13": dict(engine="threadsim", category="exploration", design="DESIGN.md section 3 (C13)",
   technique="deterministic simulation: seeded baton scheduler + virtual clock with forward jumps over the real Delay/Promise/Future/ThreadPoolExecutor, linearizability vs write-once cell, timeout rules on virtual time",
   text="Seeded schedule search over 2-4 real threads racing one delay / promise / future (real pool, real stdlib worker loop on sim primitives) with bodies that yield, sleep in virtual time, block on a promise that an independent task delivers, deref their own delay, or throw from a palette incl. TimeoutError, timed derefs whose deadlines collide with deliveries, forward clock jumps and pool pressure; oracles: body at most one at a time and never after a normal return, all derefs agree, promise history linearizable against a write-once cell, timed deref yields the timeout value only if nothing completed before its virtual deadline and never early, future deref == body outcome, realized? monotone; future-cancel / future-cancelled? follow the concurrent.futures contract (a cancel wins iff the body never starts, the outcome is then CancelledError, a refused cancel means the body runs); promises are also delivered through (p v); lost wake-ups surface as kernel deadlock. Sampling with measured reach.",
   note="Trusted: sim Lock/RLock/Condition/Semaphore/SimpleQueue/Thread semantics (no spurious wake-ups, FIFO notify), virtual clock advancing only at idle or by injected jumps; concurrent.futures runs real code on those primitives."),
 "C12": dict(engine="threadsim", category="exploration", design="DESIGN.md section 3 (C12)",
   technique="deterministic simulation: seeded baton scheduler (random walk + PCT) over real threads, linearizability oracle vs sequential register, callback fault injection",
   text="Seeded schedule search (random walk and PCT d<=3, line granularity plus opcode granularity in 15% of runs) over 2-3 real threads x 1-3 atom operations with throwing/slow update fns, rejecting validators (also for a value equal to the one it replaces) and a watch that itself updates the atom; every complete history is checked for linearizability against a sequential register with unique values, validator invisibility and watch transitions; solo runs check bounded termination over NaN-like values. Sampling with measured reach, not enumeration.",
   note="Trusted: sim RLock semantics (DESIGN 8a), line/opcode-level preemption is at least as coarse as CPython's, the 60-line register model. The Atom lock is a sim primitive; everything else (Atom, RefBase, core.lpy CAS loops, trampoline) is the real code."),
}

def main():
    checks = []
    for cid in sorted(CHECKS):
        c = CHECKS[cid]
        checks.append({
            "property_id": cid,
            "quick_cmd": f"./simctl check {cid} --tier quick",
            "thorough_cmd": f"./simctl check {cid} --tier thorough",
            "evidence_file": f"/verif/evidence/{cid}.json",
            "replay_cmd_template": "./simctl replay {path}",
            "engine": c["engine"],
            "level_claimed": {"category": c["category"], "text": c["text"], "design_ref": c["design"]},
            "level_note": c["note"],
            "technique": c["technique"],
        })
    for k in CHECKS:
        PENDING.pop(k, None)
    na = [{"property_id": k, "reason": v} for k, v in sorted({**NA, **PENDING}.items())]
    engines = {}
    for cid, c in CHECKS.items():
        engines.setdefault(c["engine"], []).append(cid)
    kinds = {"threadsim": "seeded baton-passing kernel over real threads with sim locks/conditions/clock (sim/kernel.py, sim/primitives.py, sim/trace.py)",
             "netsim": "threadsim plus simulated stream sockets and exhaustive cut-point enumeration",
             "procsim": "sequential real interpreter incarnations over a simulated disk/clock with crash and damage injection"}
    m = {
        "version": 1,
        "setup_cmd": "./simctl setup",
        "hooks": {
            "guard": "BASILISP_VERIF_SIM",
            "enable": "checks build /repo/rust offline into /verif/.cache and side-load it as basilisp._lang with BASILISP_VERIF_SIM=1 in the environment; no Python source is changed by hooks",
            "baseline_off_cmd": "/verif/tools/baseline.sh",
            "source_commits": HOOK_COMMITS,
            "add_only": True,
        },
        "engines": [{"name": e, "path": "/verif/sim", "serves_properties": sorted(p), "kind_free_text": kinds[e]} for e, p in sorted(engines.items())],
        "checks": checks,
        "not_applicable": na,
        "notes": "Technique: deterministic simulation with fault injection. One integer (VERIF_SEED) decides workloads, fault plans and schedules. Exit codes: 0 held, 1 VIOLATION, 2 harness failure (never reported as pass). Known/fixed findings: /verif/known_findings.json.",
    }
    with open(os.path.join(V, "MANIFEST.json"), "w") as f:
        json.dump(m, f, indent=1)
    print("MANIFEST.json written:", len(checks), "checks,", len(na), "not applicable")

HOOK_COMMITS = ["c27de39"]
if __name__ == "__main__":
    main()
