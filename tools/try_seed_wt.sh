#!/bin/sh
# Like try_seed.sh but runs the check against the worktree itself (VERIF_REPO) instead of patching /repo.
P=$1; S=$2; WT=/tmp/seed-$P-$S; D=/verif/seeded/$P-$S
mkdir -p $D; cp $WT/patch.diff $WT/demo.py $D/
cd $WT || exit 9
git diff --quiet -- src rust && git apply patch.diff
if [ "$3" != "nodemo" ]; then
RUN="env -u PYTHONDONTWRITEBYTECODE PYTHONPATH=$WT/src PYTHONPYCACHEPREFIX=$WT/.pyc timeout 900 /venv/bin/python demo.py"
$RUN > $D/demo_with.out 2>&1; echo "demo WITH change: exit $? : $(tail -1 $D/demo_with.out | cut -c1-150)"
git apply -R patch.diff
$RUN > $D/demo_without.out 2>&1; echo "demo WITHOUT change: exit $? : $(tail -1 $D/demo_without.out | cut -c1-150)"
git apply patch.diff
fi
cd /verif && env -u VERIF_ENV_OK VERIF_REPO=$WT timeout 3000 ./simctl check $P --tier quick > $D/check.out 2>&1; echo "check exit $?"
grep -E "^VIOLATION|signature=|^\[$P\] runs|HARNESS" $D/check.out | cut -c1-260
