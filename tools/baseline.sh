#!/bin/sh
# Runs the pinned baseline suite with the hook guard OFF and compares against BASELINE.json.
unset BASILISP_VERIF_SIM
OUT=${1:-/verif/.cache/baseline.junit.xml}
mkdir -p "$(dirname "$OUT")"
cd /repo && /venv/bin/python -m pytest -ra -q -p no:cacheprovider --timeout=900 --continue-on-collection-errors --junitxml="$OUT" >/verif/.cache/baseline.log 2>&1
/venv/bin/python - "$OUT" <<'PY'
import json, sys, xml.etree.ElementTree as ET
base = json.load(open('/root/.vp/BASELINE.json'))
want = set(base['stable_pass'])
got = set()
for tc in ET.parse(sys.argv[1]).getroot().iter('testcase'):
    ok = not any(c.tag in ('failure', 'error', 'skipped') for c in tc)
    if ok:
        got.add(f"{tc.get('classname')}::{tc.get('name')}")
missing = sorted(want - got)
print(f"baseline: {len(want)} expected passes, {len(want & got)} passed, {len(missing)} missing")
for m in missing[:20]:
    print("  MISSING", m)
sys.exit(1 if missing else 0)
PY
