#!/bin/sh
# Runs the pinned baseline suite with the hook guard OFF and compares against BASELINE.json.
unset BASILISP_VERIF_SIM
OUT=${1:-/verif/.cache/baseline.junit.xml}
# The suite imports the native extension from the git-ignored build output
# /repo/src/basilisp/_lang.abi3.so: make sure it is built from the CURRENT /repo/rust.
/venv/bin/python - <<'PY' || exit 2
import filecmp, os, shutil, sys
sys.path.insert(0, '/verif')
os.environ.pop('BASILISP_VERIF_SIM', None)
from sim import bootstrap as B
so = B.ensure_native(verbose=True)
dst = os.path.join(B.REPO, 'src', 'basilisp', '_lang.abi3.so')
if not os.path.exists(dst) or not filecmp.cmp(so, dst, shallow=False):
    shutil.copyfile(so, dst + '.tmp'); os.replace(dst + '.tmp', dst)
    print('[baseline] installed native extension built from the current rust sources')
PY
mkdir -p "$(dirname "$OUT")"
cd /repo && /venv/bin/python -m pytest -ra -q -p no:cacheprovider --timeout=900 --continue-on-collection-errors --junitxml="$OUT" >/verif/.cache/baseline.log 2>&1
/venv/bin/python - "$OUT" <<'PY'
import json, sys, xml.etree.ElementTree as ET
base = json.load(open('/root/.vp/BASELINE.json'))
want = set(base['stable_pass'])
got = set()
for tc in ET.parse(sys.argv[1]).getroot().iter('testcase'):
    ok = not any(c.tag in ('failure', 'error', 'skipped') for c in tc)
    if ok:
        got.add(f"{tc.get('classname')}::{tc.get('name')}")
missing = sorted(want - got)
print(f"baseline: {len(want)} expected passes, {len(want & got)} passed, {len(missing)} missing")
for m in missing[:20]:
    print("  MISSING", m)
sys.exit(1 if missing else 0)
PY
