#!/bin/sh
# run a python script under the controlled environment (debug helper)
HS=${HASHSEED:-0}
exec /venv/bin/python -c "
import sys, os
sys.path.insert(0, '/verif')
from sim import bootstrap as B
env = B.controlled_env($HS)
os.execve(B.PY, [B.PY] + sys.argv[1:], env)
" "$@"
