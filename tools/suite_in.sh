#!/bin/sh
# Runs the repository's pinned suite inside a scratch worktree ($1) with that worktree's sources,
# and compares the passes with BASELINE.json (used to confirm that a seeded change keeps the suite green).
WT=$1
OUT=/verif/.cache/suite-$(basename $WT).xml
mkdir -p /verif/.cache
cd $WT && env -u BASILISP_VERIF_SIM PYTHONPATH=$WT/src /venv/bin/python -m pytest -q -p no:cacheprovider --timeout=900 --continue-on-collection-errors --junitxml=$OUT > /verif/.cache/suite-$(basename $WT).log 2>&1
/venv/bin/python - $OUT <<'PY'
import json, sys, xml.etree.ElementTree as ET
want = set(json.load(open('/root/.vp/BASELINE.json'))['stable_pass'])
got = set()
for tc in ET.parse(sys.argv[1]).getroot().iter('testcase'):
    if not any(c.tag in ('failure', 'error', 'skipped') for c in tc):
        got.add(f"{tc.get('classname')}::{tc.get('name')}")
missing = sorted(want - got)
print(f"suite in {sys.argv[1]}: {len(want & got)}/{len(want)} baseline passes, missing {len(missing)}")
for m in missing[:10]:
    print("  MISSING", m)
sys.exit(1 if missing else 0)
PY
