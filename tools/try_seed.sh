#!/bin/sh
# usage: try_seed.sh <PROP> <suffix>   e.g. C12 b   (expects worktree /tmp/seed-C12-b with patch.diff and demo.py)
P=$1; S=$2; WT=/tmp/seed-$P-$S; D=/verif/seeded/$P-$S
mkdir -p $D; cp $WT/patch.diff $WT/demo.py $D/
cd $WT || exit 9
git diff --quiet -- src rust && git apply patch.diff     # make sure the change is applied
RUN="env -u PYTHONDONTWRITEBYTECODE PYTHONPATH=$WT/src PYTHONPYCACHEPREFIX=$WT/.pyc timeout 900 /venv/bin/python demo.py"
$RUN > $D/demo_with.out 2>&1; echo "demo WITH change: exit $? : $(tail -1 $D/demo_with.out | cut -c1-150)"
git apply -R patch.diff
$RUN > $D/demo_without.out 2>&1; echo "demo WITHOUT change: exit $? : $(tail -1 $D/demo_without.out | cut -c1-150)"
git apply patch.diff
cd /repo && git diff --quiet || { echo "/repo is dirty"; exit 8; }
git apply $D/patch.diff || exit 7
cd /verif && timeout 3000 ./simctl check $P --tier quick > $D/check.out 2>&1; echo "check exit $?"
git -C /repo checkout -- . ; git -C /repo status --short | head -3
grep -E "^VIOLATION|signature=|^\[$P\] runs" $D/check.out | cut -c1-260
