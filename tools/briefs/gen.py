import json,sys
common=open('/verif/tools/briefs/common.txt').read()
R=sys.argv[1]
earlier={}
for p in ['C06','C11','C12','C13','C14','C18','C19']:
    lines=[]
    for s in 'abcdefghij':
        try: d=json.load(open(f'/verif/seeded/{p}-{s}/meta.json'))
        except Exception: continue
        lines.append(f"- {d['change']} [needed: {d['needs_to_manifest'][:300]}]")
    earlier[p]='\n'.join(lines)
hints=json.load(open(f'/verif/tools/briefs/hints-{R}.json'))
for p in earlier:
    wt=f'/tmp/seed-{p}-{R}'
    open(f'/tmp/briefs/{p}-{R}.txt','w').write(common.replace('{WT}',wt).replace('{EARLIER}',earlier[p]).replace('{HINTS}',hints[p]))
