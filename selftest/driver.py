"""Self-validation of the machinery: determinism, sensitivity, model unit tests."""
import json
import os
import subprocess
import sys
import time

from sim import bootstrap as B
from sim import runner as R


def determinism(args):
    checks = [c for c in (args.checks.split(",") if args.checks else sorted(R.CHECKS)) if c]
    bad = 0
    for cid in checks:
        try:
            check = R.load_check(cid)
        except ModuleNotFoundError:
            continue
        if getattr(check, "driver_main", None) and not getattr(check, "TIERS", None):
            continue
        runs = args.runs
        t0 = time.time()
        res = {}
        for label, lanes, procs in (("16-lanes", 16, 16), ("16-lanes-again", 16, 8), ("4-lanes", 4, 4)):
            outs, errors = R.run_lanes(check, "quick", 424242, runs, digests=True, lanes=lanes, procs=procs)
            if errors:
                print(f"[determinism] {cid} {label}: lane errors {errors[:1]}")
                bad += 1
            m = R.merge(outs)
            res[label] = {d[0]: tuple(d[1:]) for d in m["digests"]}
        base = res["16-lanes"]
        for label in ("16-lanes-again", "4-lanes"):
            diff = [i for i in base if res[label].get(i) != base[i]]
            if diff or len(res[label]) != len(base):
                bad += 1
                print(f"[determinism] {cid}: {len(diff)} of {len(base)} runs differ between 16-lanes and {label}; "
                      f"first index {diff[:5]}: {[ (base[i], res[label].get(i)) for i in diff[:2]]}")
        # second hash seed: verdicts must agree (digests too when the check is hash-independent)
        hs_alt = {"HASHSEEDS": getattr(check, "HASHSEEDS", [0])}
        check.HASHSEEDS = [(h + 7919) for h in hs_alt["HASHSEEDS"]]
        outs, errors = R.run_lanes(check, "quick", 424242, runs, digests=True, lanes=16, procs=16)
        check.HASHSEEDS = hs_alt["HASHSEEDS"]
        if errors:
            print(f"[determinism] {cid} other-hash-seed run: lane errors {[(e[0], e[1], e[2][-300:]) for e in errors[:2]]}")
            bad += 1
        m = R.merge(outs)
        alt = {d[0]: tuple(d[1:]) for d in m["digests"]}
        vdiff = [i for i in base if alt.get(i, (None, None, None))[1:] != base[i][1:]]
        ddiff = [i for i in base if alt.get(i) != base[i]]
        hash_dep = getattr(check, "HASH_DEPENDENT", False)
        if vdiff and not hash_dep:
            bad += 1
            print(f"[determinism] {cid}: verdict differs under another PYTHONHASHSEED at indices {vdiff[:5]}")
        print(f"[determinism] {cid}: {len(base)} runs x 3 partitions identical={bad == 0}; other hash seed: "
              f"{len(ddiff)} digest diffs, {len(vdiff)} verdict diffs (hash_dependent={hash_dep}) "
              f"[{time.time()-t0:.0f}s]")
    print("[determinism] " + ("OK" if not bad else f"FAILED ({bad})"))
    return 0 if not bad else 2


def models(args):
    r = subprocess.run([B.PY, "-m", "pytest", "-q", "-p", "no:cacheprovider", os.path.join(B.VERIF, "models", "tests")],
                       env=B.controlled_env(0), cwd=B.VERIF)
    return r.returncode


def main(args):
    if args.what == "determinism":
        return determinism(args)
    if args.what == "models":
        return models(args)
    if args.what == "sensitivity":
        from selftest import sensitivity
        return sensitivity.main(args)
