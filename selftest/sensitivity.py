"""Sensitivity self-test: every mutant (a small semantic change that keeps the repo's test
suite green, or the reversal of one of our fix: commits) must be caught by the quick
check of its property.  Works on a scratch copy outside /repo and /verif, removed
afterwards."""
import json
import os
import shutil
import subprocess
import sys
import time

from sim import bootstrap as B

SCRATCH = "/scratch/verif-mut"


def R(file, old, new, count=1):
    return {"file": file, "old": old, "new": new, "count": count}


ATOM = "src/basilisp/lang/atom.py"
REF = "src/basilisp/lang/reference.py"
RT = "src/basilisp/lang/runtime.py"
CORE = "src/basilisp/core.lpy"
PROMISE = "src/basilisp/lang/promise.py"
DELAY = "src/basilisp/lang/delay.py"
FUT = "src/basilisp/lang/futures.py"
MULTI = "src/basilisp/lang/multifn.py"
SEQRS = "rust/src/basilisp_native/seq.rs"
IMPORTER = "src/basilisp/importer.py"
BENCODE = "src/basilisp/contrib/bencode.lpy"
NREPL = "src/basilisp/contrib/nrepl_server.lpy"

MUTANTS = [
    # ---- C12
    {"id": "C12-revert-F3-recur-nil-rest", "prop": "C12", "revert": "c7e69ed"},
    {"id": "C12-revert-F4-identity-cas", "prop": "C12", "revert": "1cf14bb"},
    {"id": "C12-cas-without-lock", "prop": "C12", "edits": [
        R(ATOM, "        with self._lock:\n            state = self._state\n", "        if True:\n            state = self._state\n")]},
    {"id": "C12-watch-gets-new-new", "prop": "C12", "edits": [
        R(ATOM, "                self._notify_watches(oldval, newval)\n                return newval",
          "                self._notify_watches(newval, newval)\n                return newval")]},
    {"id": "C12-validate-after-install", "prop": "C12", "edits": [
        R(ATOM, "            newval = f(oldval, *args, **kwargs)\n            self._validate(newval)\n            if self._compare_and_set(oldval, newval):\n",
          "            newval = f(oldval, *args, **kwargs)\n            if self._compare_and_set(oldval, newval):\n                self._validate(newval)\n")]},
    {"id": "C12-swap-vals-returns-stale-old", "prop": "C12", "edits": [
        R(CORE, "      [new-val current]\n      (recur atom f args))))", "      [new-val (deref atom)]\n      (recur atom f args))))")]},
    {"id": "C12-reset-skips-cas-loop", "prop": "C12", "edits": [
        R(ATOM, "            oldval = self._state\n            self._validate(v)\n            if self._compare_and_set(oldval, v):\n                self._notify_watches(oldval, v)\n                return v",
          "            oldval = self._state\n            self._validate(v)\n            self._state = v\n            if True:\n                self._notify_watches(oldval, v)\n                return v")]},
    {"id": "C12-add-watch-without-lock", "prop": "C12", "edits": [
        R(REF, "        with self._lock:\n            self._watches = self._watches.assoc(k, wf)\n            return self",
          "        if True:\n            self._watches = self._watches.assoc(k, wf)\n            return self")]},
    {"id": "C12-noop-update-not-notified", "prop": "C12", "edits": [
        R(ATOM, "        if self._compare_and_set(old, new):\n            self._notify_watches(old, new)\n            return True",
          "        if self._compare_and_set(old, new):\n            if new is not old:\n                self._notify_watches(old, new)\n            return True")]},
    # ---- C13
    {"id": "C13-revert-F5-delay-lock", "prop": "C13", "revert": "2b432f4"},
    {"id": "C13-cancel-reports-true-always", "prop": "C13", "edits": [
        R(FUT, "    def cancel(self) -> bool:\n        return self._future.cancel()", "    def cancel(self) -> bool:\n        self._future.cancel()\n        return True")]},
    {"id": "C13-promise-call-overwrites", "prop": "C13", "edits": [
        R(PROMISE, "    __call__ = deliver\n", "    def __call__(self, value):\n        with self._condition:\n            self._is_delivered = True\n            self._value = value\n            self._condition.notify_all()\n")]},
    {"id": "C13-revert-F9-future-timeout", "prop": "C13", "revert": "528fb13"},
    {"id": "C13-promise-notify-one", "prop": "C13", "edits": [
        R(PROMISE, "self._condition.notify_all()", "self._condition.notify()")]},
    # (wait() in place of wait_for() is behaviourally equivalent here: notify_all is only sent on delivery
    #  and neither CPython's nor the sim Condition wakes spuriously - so it is not a mutant)
    {"id": "C13-promise-timeout-returns-value-slot", "prop": "C13", "edits": [
        R(PROMISE, "            else:\n                return timeout_val", "            else:\n                return self._value")]},
    {"id": "C13-promise-deliver-overwrites", "prop": "C13", "edits": [
        R(PROMISE, "            if not self._is_delivered:\n                self._is_delivered = True\n",
          "            if True:\n                self._is_delivered = True\n")]},
    {"id": "C13-promise-flag-before-value-unlocked", "prop": "C13", "edits": [
        R(PROMISE, "        with self._condition:\n            if not self._is_delivered:\n                self._is_delivered = True\n                self._value = value\n                self._condition.notify_all()",
          "        if not self._is_delivered:\n            self._is_delivered = True\n            self._value = value\n            with self._condition:\n                self._condition.notify_all()"),
        R(PROMISE, "        with self._condition:\n            if self._condition.wait_for(lambda: self._is_delivered, timeout=timeout):\n                return self._value\n            else:\n                return timeout_val",
          "        if self._is_delivered:\n            return self._value\n        with self._condition:\n            if self._condition.wait_for(lambda: self._is_delivered, timeout=timeout):\n                return self._value\n            else:\n                return timeout_val")]},
    {"id": "C13-delay-unlocked-fast-path-only", "prop": "C13", "edits": [
        R(DELAY, "        with self._lock:\n            return self._state.swap(self.__deref).value",
          "        if True:\n            return self._state.swap(self.__deref).value")]},
    {"id": "C13-future-deref-ignores-timeout", "prop": "C13", "edits": [
        R(FUT, "            return self._future.result(timeout=timeout)\n        except _TimeoutError:",
          "            return self._future.result(timeout=None if timeout else timeout)\n        except _TimeoutError:")]},
    # ---- C06
    {"id": "C06-revert-F1-lock-while-holding-gil", "prop": "C06", "edits": [
        R(SEQRS, "        self.lock.lock_py_attached(py)\n    }", "        self.lock.lock()\n    }")]},
    {"id": "C06-revert-F2-generator-not-restored", "prop": "C06", "revert": ["SUBJECT:a LazySeq whose generator raised"]},
    {"id": "C06-revert-iterate-lazy-step", "prop": "C06", "revert": ["SUBJECT:iterate does not call f until"]},
    {"id": "C06-revert-concat-resumable", "prop": "C06", "revert": ["SUBJECT:concat survives an exception"]},
    {"id": "C06-revert-interpose-lazy", "prop": "C06", "revert": ["SUBJECT:interpose does not realize the element after"]},
    {"id": "C06-revert-with-meta-empty", "prop": "C06", "revert": ["SUBJECT:with-meta on a realized empty lazy sequence"]},
    {"id": "C06-revert-nested-lazyseq-shares", "prop": "C06", "revert": ["SUBJECT:a lazy seq wrapping another lazy seq shares"]},
    {"id": "C06-map-calls-f-twice", "prop": "C06", "edits": [
        R(CORE, "      (cons (f (first coll)) (map f (rest coll))))))\n  ([f coll & colls]",
          "      (do (f (first coll)) (cons (f (first coll)) (map f (rest coll)))))))\n  ([f coll & colls]")]},
    {"id": "C06-filter-realizes-one-ahead", "prop": "C06", "edits": [
        R(CORE, "    (when-let [coll (seq coll)]\n      (if (pred (first coll))\n        (cons (first coll) (filter pred (rest coll)))",
          "    (when-let [coll (seq coll)]\n      (seq (rest coll))\n      (if (pred (first coll))\n        (cons (first coll) (filter pred (rest coll)))")]},
    {"id": "C06-take-nth-realizes-ahead", "prop": "C06", "edits": [
        R(CORE, "              (take-nth n (drop (dec n) (rest coll)))))))))", "              (take-nth n (seq (drop (dec n) (rest coll))))))))))")]},
    {"id": "C06-mapcat-eager", "prop": "C06", "edits": [
        R(CORE, "   (apply concat (apply map f colls))))", "   (apply concat (doall (apply map f colls)))))")]},
    {"id": "C06-partition-by-drops-via-doall", "prop": "C06", "edits": [
        R(CORE, "        (cons run (partition-by f (seq (drop (count run) coll)))))))))", "        (cons run (partition-by f (doall (drop (count run) coll)))))))))")]},
    # ---- C14
    {"id": "C14-revert-F7-keyword-hash", "prop": "C14", "revert": ["SUBJECT:keywords from cached bytecode are interned"]},
    {"id": "C14-mtime-not-checked", "prop": "C14", "edits": [
        R(IMPORTER, "    elif _r_long(raw_timestamp) != mtime:", "    elif False:")]},
    {"id": "C14-size-check-less-than", "prop": "C14", "edits": [
        R(IMPORTER, "    elif _r_long(raw_size) != source_size:", "    elif _r_long(raw_size) < source_size:")]},
    {"id": "C14-eoferror-not-caught", "prop": "C14", "edits": [
        R(IMPORTER, "                except (EOFError, ImportError, OSError) as e:", "                except (ImportError, OSError) as e:")]},
    {"id": "C14-magic-not-checked", "prop": "C14", "edits": [
        R(IMPORTER, "    if magic != MAGIC_NUMBER:", "    if False:")]},
    {"id": "C14-cache-header-records-wrong-size", "prop": "C14", "edits": [
        R(IMPORTER, "    data.extend(_w_long(source_size))", "    data.extend(_w_long(source_size + 1))")]},
    {"id": "C14-partial-exec-before-validation", "prop": "C14", "edits": [
        R(IMPORTER, "    return marshal.loads(cache_data[12:])  # nosec 6302",
          "    try:\n        return marshal.loads(cache_data[12:])  # nosec 6302\n    except EOFError:\n        return []")]},
    {"id": "C06-sequence-swallows-iterator-error", "prop": "C06", "edits": [
        R(SEQRS, "            Some(Err(e)) => Err(e),\n            None => Ok(empty_seq(py).clone()),",
          "            Some(Err(_)) => Ok(empty_seq(py).clone()),\n            None => Ok(empty_seq(py).clone()),")]},
    {"id": "C06-computing-seen-by-other-thread-is-empty", "prop": "C06", "edits": [
        R(SEQRS, "            match gen.call0(py) {", "            drop(mutex);\n            let result = gen.call0(py);\n            let mutex = self.lock_state(py);\n            match result {")]},
    # ---- C19
    {"id": "C19-slice-without-bounds-check", "prop": "C19", "edits": [
        R(BENCODE, "   (if (and end (> end (len bytes)))\n     (throw (python/ValueError \"out of input\"))",
          "   (if false\n     (throw (python/ValueError \"out of input\"))")]},
    {"id": "C19-nrepl-forgets-to-prepend-pending", "prop": "C19", "edits": [
        R(NREPL, "(let [b (+ p data)]", "(let [b data]")]},
    {"id": "C19-nrepl-never-clears-pending", "prop": "C19", "edits": [
        R(NREPL, "                                           (reset! pending nil)\n", "")]},
    {"id": "C19-nrepl-never-stores-pending", "prop": "C19", "edits": [
        R(NREPL, "(when (not (str/blank? unprocessed))", "(when false")]},
    {"id": "C19-decode-all-stops-after-first", "prop": "C19", "edits": [
        R(BENCODE, "         (recur (conj items item) data))))))", "         [(conj items item) data])))))")]},
    {"id": "C19-decode-int-keeps-terminator", "prop": "C19", "edits": [
        R(BENCODE, "    [(int (slice data 0 i))\n     (slice data (inc i))]))", "    [(int (slice data 0 i))\n     (slice data i)]))")]},
    {"id": "C19-revert-python-dict-encode", "prop": "C19", "revert": ["SUBJECT:bencode encode of a Python dict"]},
    {"id": "C19-nrepl-handles-requests-in-reverse", "prop": "C19", "edits": [
        R(NREPL, "            (doseq [request requests]", "            (doseq [request (reverse requests)]")]},
    # ---- C18
    {"id": "C18-revert-order-independent-dispatch", "prop": "C18", "revert": ["57d3903"]},
    # (F17, a05e19e: 1 hit in 15000 quick runs under VERIF_SEED=777 only - a thorough-tier mutant, not listed for quick)
    {"id": "C18-revert-F8-snapshot-under-lock", "prop": "C18", "revert": ["57d3903", "425145c"]},
    {"id": "C18-remove-method-keeps-cache", "prop": "C18", "edits": [
        R(MULTI, "                self._methods = self._methods.dissoc(key)\n            self._reset_cache()",
          "                self._methods = self._methods.dissoc(key)")]},
    {"id": "C18-prefer-method-keeps-cache", "prop": "C18", "edits": [
        R(MULTI, "            self._prefers = self._prefers.assoc(preferred_key, existing.cons(other_key))\n            self._reset_cache()",
          "            self._prefers = self._prefers.assoc(preferred_key, existing.cons(other_key))")]},
    {"id": "C18-no-hierarchy-check-on-fast-path", "prop": "C18", "edits": [
        R(MULTI, "        if self._cached_hierarchy == self._hierarchy.deref():\n            cached_val", "        if True:\n            cached_val")]},
    {"id": "C18-slow-path-does-not-reset-on-hierarchy-change", "prop": "C18", "edits": [
        R(MULTI, "            if self._cached_hierarchy != hierarchy:\n                self._reset_cache(hierarchy)", "            if False:\n                self._reset_cache(hierarchy)")]},
    {"id": "C18-isa-reads-live-hierarchy-in-slow-path", "prop": "C18", "edits": [
        R(MULTI, "        if hierarchy is None:\n            hierarchy = self._hierarchy.deref()\n        return bool(self._isa.value(hierarchy, tag, parent))",
          "        hierarchy = self._hierarchy.deref()\n        return bool(self._isa.value(hierarchy, tag, parent))")]},
    {"id": "C18-add-method-keeps-cache", "prop": "C18", "edits": [
        R(MULTI, "            self._methods = self._methods.assoc(key, method)\n            self._reset_cache()",
          "            self._methods = self._methods.assoc(key, method)\n            self._cache = self._cache.assoc(key, method)")]},
    {"id": "C18-global-underive-discards-result", "prop": "C18", "edits": [
        R(CORE, "   (alter-var-root #'global-hierarchy underive tag parent)\n   nil)", "   (underive global-hierarchy tag parent)\n   nil)")]},
    {"id": "C18-default-hierarchy-is-a-snapshot", "prop": "C18", "edits": [
        R(MULTI, "        self._hierarchy: IRef[IPersistentMap] = hierarchy or runtime.Var.find_safe(\n            _GLOBAL_HIERARCHY_SYM\n        )\n",
          "        self._hierarchy: IRef[IPersistentMap] = hierarchy or runtime.Var.find_safe(\n            _GLOBAL_HIERARCHY_SYM\n        )\n        if hierarchy is None:\n            from basilisp.lang import atom as _atom\n            self._hierarchy = _atom.Atom(self._hierarchy.deref())\n")]},
    {"id": "C18-custom-default-ignored", "prop": "C18", "edits": [
        R(MULTI, "                best_method = self._methods.val_at(self._default)", "                from basilisp.lang import keyword as _kw\n                best_method = self._methods.val_at(_kw.keyword(\"default\"))")]},
    {"id": "C18-isa-vectors-some-instead-of-every", "prop": "C18", "edits": [
        R(CORE, "                 (every? identity)))\n       (contains? (ancestors h tag) parent)", "                 (some identity)))\n       (contains? (ancestors h tag) parent)")]},
    {"id": "C18-underive-keeps-descendants", "prop": "C18", "edits": [
        R(CORE, "                   (make-hierarchy))))))\n\n;;;;;;;;;;;;;;;;;;\n;; Multimethods ;;", "                   (assoc (make-hierarchy) :descendants (:descendants h)))))))\n\n;;;;;;;;;;;;;;;;;;\n;; Multimethods ;;")]},
    {"id": "C18-derive-forgets-transitive-ancestors", "prop": "C18", "edits": [
        R(CORE, "                                   (apply conj parent-ancestors parent)", "                                   (apply conj #{} parent)")]},
    # ---- C11
    {"id": "C11-revert-F6-push-rollback", "prop": "C11", "revert": "FIX_F6"},
    {"id": "C11-pop-forgets-var-pop", "prop": "C11", "edits": [
        R(RT, "    for var in bindings:\n        var.pop_bindings()\n\n\n###################\n# Runtime Support #",
          "    for var in list(bindings)[1:]:\n        var.pop_bindings()\n\n\n###################\n# Runtime Support #")]},
    {"id": "C11-bound-fn-captures-nothing", "prop": "C11", "edits": [
        R(CORE, "  (let [current-bindings (get-thread-bindings)]\n    (fn [& args]\n      (apply with-bindings* current-bindings f args))))",
          "  (let [current-bindings (hash-map)]\n    (fn [& args]\n      (apply with-bindings* current-bindings f args))))")]},
    {"id": "C11-bound-fn-captures-late", "prop": "C11", "edits": [
        R(CORE, "  (let [current-bindings (get-thread-bindings)]\n    (fn [& args]\n      (apply with-bindings* current-bindings f args))))",
          "  (let [current-bindings (get-thread-bindings)\n        creator (threading/current-thread)]\n    (fn [& args]\n      (apply with-bindings* (if (identical? creator (threading/current-thread)) (get-thread-bindings) current-bindings) f args))))")]},
    {"id": "C11-var-bindings-not-thread-local", "prop": "C11", "edits": [
        R(RT, "class _VarBindings(threading.local):", "class _VarBindings:")]},
    {"id": "C11-get-thread-bindings-top-frame-only", "prop": "C11", "edits": [
        R(RT, "    for frame in _THREAD_BINDINGS.get_bindings():\n        bindings.update({var: var.value for var in frame})",
          "    for frame in list(_THREAD_BINDINGS.get_bindings())[-1:]:\n        bindings.update({var: var.value for var in frame})")]},
    {"id": "C11-set-value-pushes-instead-of-replacing", "prop": "C11", "edits": [
        R(RT, "                if len(self._tl.bindings) > 0:\n                    self._tl.bindings[-1] = v\n                else:\n                    self.push_bindings(v)",
          "                if len(self._tl.bindings) > 1:\n                    self._tl.bindings[-1] = v\n                else:\n                    self.push_bindings(v)")]},
]


def _git(*a):
    return subprocess.run(["git", "-C", "/repo"] + list(a), capture_output=True, text=True)


def _resolve_commit(tag):
    if tag == "FIX_F6":
        r = _git("log", "--format=%h %s")
        for ln in r.stdout.splitlines():
            if "failed push of thread bindings" in ln:
                return ln.split()[0]
        raise SystemExit("cannot find the F6 fix commit")
    if tag.startswith("SUBJECT:"):
        r = _git("log", "--format=%h %s")
        for ln in r.stdout.splitlines():
            if tag[8:] in ln:
                return ln.split()[0]
        raise SystemExit("cannot find commit with subject " + tag[8:])
    return tag


def make_scratch(name):
    d = os.path.join(SCRATCH, name)
    shutil.rmtree(d, ignore_errors=True)
    os.makedirs(d)
    subprocess.run(["rsync", "-a", "--exclude", "target", "--exclude", "__pycache__", "--exclude", "*.so",
                    "/repo/src", "/repo/rust", d + "/"], check=True)
    return d


def apply_mutant(m, d):
    if "revert" in m:
        revs = m["revert"] if isinstance(m["revert"], list) else [m["revert"]]
        for tag in revs:
            c = _resolve_commit(tag)
            diff = _git("show", "--format=", c).stdout
            r = subprocess.run(["patch", "-R", "-p1", "-d", d], input=diff, capture_output=True, text=True)
            if r.returncode != 0:
                raise RuntimeError(f"revert of {c} does not apply: {r.stdout} {r.stderr}")
            for ln in diff.splitlines():
                if ln.startswith("+++ b/"):
                    p = os.path.join(d, ln[6:])
                    st = os.stat(p)
                    os.utime(p, (st.st_atime, st.st_mtime + 11))
        return
    for e in m["edits"]:
        p = os.path.join(d, e["file"])
        s = open(p).read()
        if s.count(e["old"]) < 1:
            raise RuntimeError(f"mutant {m['id']}: anchor text not found in {e['file']}")
        s = s.replace(e["old"], e["new"], e.get("count", 1))
        st = os.stat(p)
        with open(p, "w") as f:
            f.write(s)
        # make sure size-or-mtime changes so cached bytecode of this file is stale
        os.utime(p, (st.st_atime, st.st_mtime + 7))


def seed_pyc(d):
    """Reuse /repo's bundled-namespace bytecode for files the mutant left untouched."""
    env = dict(os.environ, VERIF_REPO=d)
    out = subprocess.run([B.PY, "-c", "import sys; sys.path.insert(0,'/verif'); from sim import bootstrap as b; print(b.pyc_prefix())"],
                         env=env, capture_output=True, text=True).stdout.strip()
    src = os.path.join(B.pyc_prefix(), "repo", "src")
    dst = os.path.join(out, d.lstrip("/"), "src")
    if os.path.isdir(src) and not os.path.exists(dst):
        os.makedirs(os.path.dirname(dst), exist_ok=True)
        shutil.copytree(src, dst)
    return out


def run_mutant(m, runs=None, keep=False):
    t0 = time.time()
    d = make_scratch(m["id"])
    try:
        apply_mutant(m, d)
        pyc = seed_pyc(d)
        env = dict(os.environ, VERIF_REPO=d, VERIF_SEED=os.environ.get("VERIF_SEED", "1"))
        env.pop("VERIF_ENV_OK", None)
        cmd = [os.path.join(B.VERIF, "simctl"), "check", m["prop"], "--tier", "quick"]
        if runs:
            cmd += ["--runs", str(runs)]
        r = subprocess.run(cmd, env=env, capture_output=True, text=True, cwd=B.VERIF, timeout=2400)
        caught = r.returncode == 1 and "VIOLATION property=" + m["prop"] in r.stdout
        sigs = [ln.strip().split(" ")[0] for ln in r.stdout.splitlines() if ln.strip().startswith("signature=")]
        return {"id": m["id"], "prop": m["prop"], "caught": caught, "rc": r.returncode, "signatures": sigs,
                "wall": round(time.time() - t0, 1), "tail": (r.stdout[-600:] + r.stderr[-600:]) if not caught else ""}
    finally:
        if not keep:
            shutil.rmtree(d, ignore_errors=True)
            try:
                shutil.rmtree(pyc, ignore_errors=True)
            except Exception:  # noqa: BLE001
                pass


def main(args):
    want = [x for x in args.mutants.split(",") if x]
    checks = [x for x in args.checks.split(",") if x]
    res = []
    os.makedirs(SCRATCH, exist_ok=True)
    # replays produced by mutant runs are not findings on /repo: keep them out of replays/
    for m in MUTANTS:
        if want and m["id"] not in want:
            continue
        if checks and m["prop"] not in checks:
            continue
        try:
            r = run_mutant(m)
        except Exception as e:  # noqa: BLE001
            r = {"id": m["id"], "prop": m["prop"], "caught": False, "rc": None, "signatures": [], "wall": 0,
                 "tail": "HARNESS " + repr(e)}
        res.append(r)
        print(f"[sensitivity] {r['id']:45s} {'CAUGHT' if r['caught'] else 'MISSED'} rc={r['rc']} "
              f"{r['wall']}s {r['signatures'][:2]}", flush=True)
        if not r["caught"]:
            print("    " + r["tail"].replace("\n", "\n    "))
    shutil.rmtree(SCRATCH, ignore_errors=True)
    os.makedirs(os.path.join(B.VERIF, "selftest", "results"), exist_ok=True)
    path = os.path.join(B.VERIF, "selftest", "results", "sensitivity.json")
    merged = {}
    try:
        for r in json.load(open(path)).get("results", []):
            merged[r["id"]] = r
    except (OSError, ValueError):
        pass
    now = time.strftime("%Y-%m-%dT%H:%M:%S")
    for r in res:
        r["at"] = now
        r["tree"] = B.tree_hash()
        r.pop("tail", None) if r["caught"] else None
        merged[r["id"]] = r
    known = {m["id"] for m in MUTANTS}
    with open(path, "w") as f:
        json.dump({"note": "latest result per mutant (merged across runs)", "results": [merged[k] for k in sorted(merged) if k in known]},
                  f, indent=1)
    missed = [r for r in res if not r["caught"]]
    print(f"[sensitivity] {len(res) - len(missed)}/{len(res)} mutants caught")
    return 0 if not missed else 1
