"""Line / instruction level preemption through sys.monitoring (PEP 669).

Only code objects registered here pay anything.  Callbacks run in the executing
thread; when that thread is the current sim task the callback yields to the kernel,
so the line boundary becomes a preemption point.  The real-lock rule (DESIGN 2.2): a
method frame whose `self._lock` / `self._condition` is a *real* primitive (object
created at import time) is never preempted.
"""
import os
import sys
import types
import _thread

from . import primitives as P

mon = sys.monitoring
TOOL = 3
_E = mon.events
_registered = {}      # code -> (label, check_self)
_instr = set()
_installed = False
_get_ident = _thread.get_ident


def _on_line(code, line):
    k = P.KERNEL
    if k is None or not k.running or not k.trace_on or _get_ident() != k.cur_ident:
        return None
    info = _registered.get(code)
    if info is None:
        return None
    if info[1]:
        slf = sys._getframe(1).f_locals.get("self")
        if slf is not None:
            lk = getattr(slf, "_lock", None)
            if lk is None:
                lk = getattr(slf, "_condition", None)
            if lk is not None and not getattr(lk, "_is_sim", False):
                return None
    k.yield_(f"{info[0]}:{line}")
    return None


def _on_instr(code, offset):
    k = P.KERNEL
    if k is None or not k.running or not k.opcode_on or not k.trace_on or _get_ident() != k.cur_ident:
        return None
    info = _registered.get(code)
    if info is None or code not in _instr:
        return None
    if info[1]:
        slf = sys._getframe(1).f_locals.get("self")
        if slf is not None:
            lk = getattr(slf, "_lock", None)
            if lk is None:
                lk = getattr(slf, "_condition", None)
            if lk is not None and not getattr(lk, "_is_sim", False):
                return None
    k.yield_(f"{info[0]}+{offset}")
    return None


def install():
    global _installed
    if _installed:
        return
    mon.use_tool_id(TOOL, "basilisp-verif-sim")
    mon.register_callback(TOOL, _E.LINE, _on_line)
    mon.register_callback(TOOL, _E.INSTRUCTION, _on_instr)
    _installed = True


def _label(code):
    return os.path.basename(code.co_filename)


def register_code(code, opcode=False):
    install()
    if code in _registered and (not opcode or code in _instr):
        return
    check_self = code.co_argcount > 0 and code.co_varnames[:1] == ("self",)
    _registered[code] = (_label(code), check_self)
    ev = _E.LINE
    if opcode:
        _instr.add(code)
        ev |= _E.INSTRUCTION
    mon.set_local_events(TOOL, code, ev)


def code_objects(obj, filename_suffixes=None, _seen=None, _depth=0):
    """All code objects reachable from a function / class / module attribute,
    optionally filtered by co_filename suffix."""
    if _seen is None:
        _seen = set()
    out = []
    stack = [obj]
    while stack:
        o = stack.pop()
        if id(o) in _seen:
            continue
        _seen.add(id(o))
        if isinstance(o, types.CodeType):
            if filename_suffixes is None or o.co_filename.endswith(tuple(filename_suffixes)):
                out.append(o)
            for c in o.co_consts:
                if isinstance(c, types.CodeType):
                    stack.append(c)
        elif isinstance(o, (types.FunctionType,)):
            stack.append(o.__code__)
            w = getattr(o, "__wrapped__", None)
            if w is not None:
                stack.append(w)
            if o.__closure__:
                for cell in o.__closure__:
                    try:
                        v = cell.cell_contents
                    except ValueError:
                        continue
                    if isinstance(v, (types.FunctionType, types.MethodType)):
                        stack.append(v)
            ar = o.__dict__.get("_basilisp_arity_fns") if o.__dict__ else None
            if ar:
                stack.extend(ar)
        elif isinstance(o, types.MethodType):
            stack.append(o.__func__)
        elif isinstance(o, (staticmethod, classmethod)):
            stack.append(o.__func__)
        elif isinstance(o, property):
            for f in (o.fget, o.fset, o.fdel):
                if f is not None:
                    stack.append(f)
        elif isinstance(o, type):
            for v in vars(o).values():
                if isinstance(v, (types.FunctionType, staticmethod, classmethod, property)):
                    stack.append(v)
    return out


def register(obj, suffixes=None, opcode=False):
    n = 0
    for c in code_objects(obj, suffixes):
        register_code(c, opcode)
        n += 1
    return n


def register_module_file(module, suffixes, names=None, opcode=False):
    """Register functions/classes of a Python module (optionally only `names`)."""
    n = 0
    for name, v in vars(module).items():
        if names is not None and name not in names:
            continue
        if isinstance(v, (types.FunctionType, type)):
            if getattr(v, "__module__", None) != module.__name__:
                continue
            n += register(v, suffixes, opcode)
    return n


def register_lisp_ns(ns, names, suffix, opcode=False):
    """Register compiled Lisp functions of a basilisp namespace by Var name."""
    from basilisp.lang import symbol as sym
    n = 0
    for nm in names:
        v = ns.find(sym.symbol(nm))
        if v is None:
            raise KeyError(f"no Var {nm} in {ns}")
        n += register(v.value, [suffix], opcode)
    return n
