/* Caching arena allocator for the check processes (performance only, no semantics).
 *
 * CPython 3.12 allocates each 16 KiB frame-stack chunk with mmap and returns it with munmap
 * as soon as it is empty.  basilisp's recursive analyzer/generator crosses chunk boundaries
 * constantly, which costs ~700 mmap/munmap pairs per compiled form group; in this VM those
 * calls serialise machine-wide, so 16 parallel check lanes compile no faster than one.
 * Keeping a small free list of chunks removes the system calls.  Installed through
 * PyObject_SetArenaAllocator from Python (ctypes); other sizes go straight to mmap/munmap.
 */
#define _GNU_SOURCE
#include <stddef.h>
#include <sys/mman.h>

#define CHUNK 16384
#define MAXFREE 256

static void *freelist[MAXFREE];
static int nfree = 0;
static volatile int lock = 0;

static void take(void) { while (__sync_lock_test_and_set(&lock, 1)) { } }
static void give(void) { __sync_lock_release(&lock); }

void *verif_arena_alloc(void *ctx, size_t size) {
    (void)ctx;
    if (size == CHUNK) {
        void *p = NULL;
        take();
        if (nfree > 0) p = freelist[--nfree];
        give();
        if (p) return p;
    }
    void *p = mmap(NULL, size, PROT_READ | PROT_WRITE, MAP_PRIVATE | MAP_ANONYMOUS, -1, 0);
    return p == MAP_FAILED ? NULL : p;
}

void verif_arena_free(void *ctx, void *ptr, size_t size) {
    (void)ctx;
    if (size == CHUNK) {
        int kept = 0;
        take();
        if (nfree < MAXFREE) { freelist[nfree++] = ptr; kept = 1; }
        give();
        if (kept) return;
    }
    munmap(ptr, size);
}
