"""Environment, caches and basilisp start-up for every check process.

* re-exec with a controlled environment (hash seed, pycache prefix, guard variable)
* tree hash of /repo (python + lisp sources, rust sources)
* native extension rebuilt from /repo/rust into /verif/.cache and side-loaded, so a
  change to seq.rs is always what runs and nothing is ever written under /repo
* bundled-namespace bytecode cache warmed once per tree hash
"""
import fcntl
import hashlib
import importlib.machinery
import importlib.util
import os
import shutil
import subprocess
import sys
import time

VERIF = os.path.dirname(os.path.dirname(os.path.abspath(__file__)))
REPO = os.environ.get("VERIF_REPO", "/repo")
CACHE = os.path.join(VERIF, ".cache")
PY = "/venv/bin/python"
GUARD = "BASILISP_VERIF_SIM"


def _hash_files(root, exts, skip_dirs=()):
    h = hashlib.sha256()
    for dp, dns, fns in os.walk(root):
        dns[:] = sorted(d for d in dns if d not in skip_dirs and d != "__pycache__")
        for fn in sorted(fns):
            if not fn.endswith(exts):
                continue
            p = os.path.join(dp, fn)
            h.update(os.path.relpath(p, root).encode())
            h.update(b"\0")
            with open(p, "rb") as f:
                h.update(f.read())
            h.update(b"\0")
    return h.hexdigest()[:16]


def src_hash():
    return _hash_files(os.path.join(REPO, "src", "basilisp"), (".py", ".lpy", ".pyi"))


def rust_hash():
    return _hash_files(os.path.join(REPO, "rust"), (".rs", ".toml", ".lock"), skip_dirs=("target",))


def tree_hash():
    return hashlib.sha256((src_hash() + rust_hash()).encode()).hexdigest()[:16]


def harness_exit(msg):
    """Harness failures leave with status 2 (never 0, never the VIOLATION status 1)."""
    sys.stderr.write(str(msg) + "\n")
    sys.stderr.flush()
    sys.stdout.flush()
    os._exit(2) if os.environ.get("VERIF_HARD_EXIT") == "1" else sys.exit(2)


class _Flock:
    def __init__(self, path):
        self.path = path

    def __enter__(self):
        os.makedirs(os.path.dirname(self.path), exist_ok=True)
        self.f = open(self.path, "w")
        fcntl.flock(self.f, fcntl.LOCK_EX)
        return self

    def __exit__(self, *a):
        fcntl.flock(self.f, fcntl.LOCK_UN)
        self.f.close()


def native_path(rh=None):
    rh = rh or rust_hash()
    return os.path.join(CACHE, "native", rh, "_lang.abi3.so")


def ensure_native(verbose=False):
    """Build /repo/rust (offline) into the cache unless this rust hash is there."""
    rh = rust_hash()
    so = native_path(rh)
    if os.path.exists(so):
        return so
    with _Flock(os.path.join(CACHE, "native.lock")):
        if os.path.exists(so):
            return so
        t0 = time.time()
        src = os.path.join(CACHE, "rust-src")
        shutil.rmtree(src, ignore_errors=True)
        shutil.copytree(os.path.join(REPO, "rust"), src,
                        ignore=shutil.ignore_patterns("target"))
        # cargo decides freshness by comparing source mtimes with the last build in the shared
        # target dir; sources restored by git/rsync/patch can carry OLDER mtimes than the
        # previous (different) build and would be taken for unchanged.  Stamp every source
        # file "now" so this crate is always recompiled from exactly these bytes (~2-6 s).
        now = time.time()
        for dp, _dns, fns in os.walk(src):
            for fn in fns:
                os.utime(os.path.join(dp, fn), (now, now))
        env = dict(os.environ)
        env.update(CARGO_TARGET_DIR=os.path.join(CACHE, "rust-target"),
                   PYO3_PYTHON=PY, CARGO_NET_OFFLINE="true")
        cmd = ["cargo", "build", "--release", "--offline", "--manifest-path",
               os.path.join(src, "Cargo.toml")]
        r = subprocess.run(cmd, env=env, capture_output=True, text=True, timeout=900)
        if r.returncode != 0:
            sys.stderr.write(r.stdout[-4000:] + r.stderr[-8000:])
            harness_exit("HARNESS: native build of /repo/rust failed")
        built = os.path.join(CACHE, "rust-target", "release", "libbasilisp_native.so")
        os.makedirs(os.path.dirname(so), exist_ok=True)
        tmp = so + ".tmp%d" % os.getpid()
        shutil.copyfile(built, tmp)
        os.replace(tmp, so)
        _prune(os.path.join(CACHE, "native"), keep=4)
        if verbose:
            print(f"[bootstrap] native extension built in {time.time()-t0:.1f}s -> {so}")
    return so


def _prune(d, keep):
    try:
        ents = sorted((os.path.getmtime(os.path.join(d, e)), e) for e in os.listdir(d))
    except OSError:
        return
    for _, e in ents[:-keep]:
        shutil.rmtree(os.path.join(d, e), ignore_errors=True)


def pyc_prefix(sh=None):
    return os.path.join(CACHE, "pyc", sh or src_hash())


def controlled_env(hashseed=0, extra=None):
    env = dict(os.environ)
    env.pop("PYTHONDONTWRITEBYTECODE", None)
    env["PYTHONHASHSEED"] = str(hashseed)
    env["PYTHONPYCACHEPREFIX"] = pyc_prefix()
    env[GUARD] = "1"
    env["VERIF_ENV_OK"] = "1"
    env["PYTHONPATH"] = VERIF + os.pathsep + os.path.join(REPO, "src")
    env["VERIF_REPO"] = REPO
    env["RUST_BACKTRACE"] = "0"
    env.pop("BASILISP_USE_DEV_LOGGER", None)
    if extra:
        env.update(extra)
    return env


def _preloaded_basilisp():
    return any(m == "basilisp" or m.startswith("basilisp.") for m in list(sys.modules))


def guard_clean_start():
    """basilisp must not be imported from /repo's prebuilt extension when a check starts.

    The repository's test suite (importer_test) and `basilisp bootstrap` drop a
    `basilispbootstrap*.pth` into site-packages which imports and initialises basilisp - and
    with it whatever `_lang.abi3.so` lies in the source tree - at every interpreter start
    while the file exists.  If that happened to this process, forget that copy completely
    (modules and import hook) so that boot_basilisp() side-loads the extension built from the
    current /repo/rust and initialises a fresh runtime."""
    if not _preloaded_basilisp():
        return
    sys.meta_path[:] = [f for f in sys.meta_path if not type(f).__module__.startswith("basilisp")]
    doomed = [m for m, mod in list(sys.modules.items())
              if m == "basilisp" or m.startswith("basilisp.")
              or type(getattr(mod, "__loader__", None)).__module__.startswith("basilisp")]
    for m in doomed:
        sys.modules.pop(m, None)
    import importlib
    importlib.invalidate_caches()
    if _preloaded_basilisp():
        harness_exit("HARNESS: could not unload a basilisp that was imported at interpreter start-up")


def ensure_env(hashseed=0):
    """Re-exec the current command under the controlled environment if needed."""
    if os.environ.get("VERIF_ENV_OK") == "1" and os.environ.get("PYTHONHASHSEED") == str(hashseed):
        guard_clean_start()
        return
    env = controlled_env(hashseed)
    os.execve(PY, [PY] + sys.argv, env)


def sideload_native():
    so = ensure_native()
    import basilisp  # noqa: F401  (package only; does not import the extension)
    if "basilisp._lang" in sys.modules:
        mod = sys.modules["basilisp._lang"]
        if getattr(mod, "__file__", None) != so:
            harness_exit("HARNESS: basilisp._lang already imported from " + str(mod.__file__))
        return mod
    loader = importlib.machinery.ExtensionFileLoader("basilisp._lang", so)
    spec = importlib.util.spec_from_file_location("basilisp._lang", so, loader=loader)
    mod = importlib.util.module_from_spec(spec)
    sys.modules["basilisp._lang"] = mod
    loader.exec_module(mod)
    return mod


def ensure_arena():
    """Build the caching arena allocator shim (performance only; see sim/native/arena_cache.c)."""
    src = os.path.join(VERIF, "sim", "native", "arena_cache.c")
    h = hashlib.sha256(open(src, "rb").read()).hexdigest()[:12]
    so = os.path.join(CACHE, "native", f"arena_cache-{h}.so")
    if os.path.exists(so):
        return so
    with _Flock(os.path.join(CACHE, "arena.lock")):
        if os.path.exists(so):
            return so
        os.makedirs(os.path.dirname(so), exist_ok=True)
        for cc in ("cc", "gcc", "clang"):
            if shutil.which(cc):
                r = subprocess.run([cc, "-O2", "-shared", "-fPIC", "-o", so + ".tmp", src], capture_output=True, text=True)
                if r.returncode == 0:
                    os.replace(so + ".tmp", so)
                    return so
    return None


_ARENA = []


def install_arena():
    """Route CPython's arena allocator through the caching shim (idempotent, best effort)."""
    if _ARENA or os.environ.get("VERIF_NO_ARENA_CACHE") == "1":
        return
    try:
        import ctypes
        so = ensure_arena()
        if so is None:
            return

        class _A(ctypes.Structure):
            _fields_ = [("ctx", ctypes.c_void_p), ("alloc", ctypes.c_void_p), ("free", ctypes.c_void_p)]
        lib = ctypes.CDLL(so)
        a = _A(None, ctypes.cast(lib.verif_arena_alloc, ctypes.c_void_p),
               ctypes.cast(lib.verif_arena_free, ctypes.c_void_p))
        ctypes.pythonapi.PyObject_SetArenaAllocator(ctypes.byref(a))
        _ARENA.extend([lib, a])
    except Exception:  # noqa: BLE001 - purely an optimisation
        pass


_BOOTED = False


def boot_basilisp():
    """Side-load the native extension and initialise basilisp (core namespace)."""
    global _BOOTED
    if _BOOTED:
        return
    guard_clean_start()
    install_arena()
    sideload_native()
    import importlib
    from basilisp import main as bmain
    bmain.init()
    importlib.import_module("basilisp.core")
    _BOOTED = True


WARM_NAMESPACES = ["basilisp.core", "basilisp.string", "basilisp.set", "basilisp.walk",
                   "basilisp.contrib.bencode", "basilisp.contrib.nrepl-server",
                   "basilisp.edn", "basilisp.json", "basilisp.io"]


def ensure_warm(verbose=False):
    """Compile the bundled namespaces once per source hash (one process does it)."""
    ensure_native(verbose)
    sh = src_hash()
    marker = os.path.join(pyc_prefix(sh), ".warm")
    if os.path.exists(marker):
        return
    with _Flock(os.path.join(CACHE, "warm.lock")):
        if os.path.exists(marker):
            return
        t0 = time.time()
        code = ("import sys; sys.path.insert(0, %r)\n"
                "from sim import bootstrap as b\n"
                "b.boot_basilisp()\n"
                "import importlib\n"
                "for n in b.WARM_NAMESPACES:\n"
                "    importlib.import_module(n.replace('-', '_'))\n" % VERIF)
        r = subprocess.run([PY, "-c", code], env=controlled_env(0), capture_output=True,
                           text=True, timeout=900)
        if r.returncode != 0:
            sys.stderr.write(r.stdout[-4000:] + r.stderr[-8000:])
            harness_exit("HARNESS: warm-up of bundled namespaces failed")
        os.makedirs(os.path.dirname(marker), exist_ok=True)
        with open(marker, "w") as f:
            f.write(str(time.time()))
        _prune(os.path.join(CACHE, "pyc"), keep=3)
        if verbose:
            print(f"[bootstrap] bundled namespaces compiled in {time.time()-t0:.1f}s")
