"""Sim replacements for threading / queue / time primitives.

Each primitive implements the *documented* contract of its original (DESIGN.md 8a).
Called from a thread that is not the current sim task (driver thread, atexit, GC)
they fall back to an internal real primitive so that import-time or teardown use
never touches kernel state.
"""
import itertools
import queue as _queue
import threading as _threading
import time as _time
import _thread

from . import kernel as _k

KERNEL = None            # set by runner for the duration of a run


def K():
    return KERNEL


def in_sim():
    k = KERNEL
    return (k is not None and k.running and not k.aborting
            and _thread.get_ident() == k.cur_ident)


def _aborting():
    k = KERNEL
    return k is not None and k.aborting


class SimLock:
    _is_sim = True

    def __init__(self):
        self.owner = None
        self.waiters = []
        self._real = _thread.allocate_lock()

    def acquire(self, blocking=True, timeout=-1):
        if not in_sim():
            if _aborting():
                raise _k.SimAbort()
            return self._real.acquire(blocking, timeout)
        k = KERNEL
        me = k.cur
        k.yield_("acq")
        deadline = None
        if blocking and timeout is not None and timeout > 0:
            deadline = k.now + timeout
        while self.owner is not None:
            if not blocking or timeout == 0:
                return False
            k.probe("lock_contended")
            self.waiters.append(me)
            if k.block("lock", deadline):
                if me in self.waiters:
                    self.waiters.remove(me)
                return False
        self.owner = me
        return True

    def release(self):
        if not in_sim():
            if _aborting():
                self.owner = None
                return
            return self._real.release()
        k = KERNEL
        if self.owner is None:
            raise RuntimeError("release unlocked lock")
        self.owner = None
        ws = self.waiters
        self.waiters = []
        for w in ws:
            k.unblock(w)
        k.yield_("rel")

    def locked(self):
        return self.owner is not None or self._real.locked()

    def __enter__(self):
        self.acquire()
        return True

    def __exit__(self, *a):
        self.release()

    def _at_fork_reinit(self):
        self.owner = None
        self.waiters = []
        self._real = _thread.allocate_lock()


class SimRLock:
    _is_sim = True

    def __init__(self):
        self.owner = None
        self.count = 0
        self.waiters = []
        self._real = _threading.RLock()

    def acquire(self, blocking=True, timeout=-1):
        if not in_sim():
            if _aborting():
                raise _k.SimAbort()
            return self._real.acquire(blocking, timeout)
        k = KERNEL
        me = k.cur
        if self.owner is me:
            self.count += 1
            return True
        k.yield_("acq")
        deadline = None
        if blocking and timeout is not None and timeout > 0:
            deadline = k.now + timeout
        while self.owner is not None:
            if not blocking or timeout == 0:
                return False
            k.probe("lock_contended")
            self.waiters.append(me)
            if k.block("rlock", deadline):
                if me in self.waiters:
                    self.waiters.remove(me)
                return False
        self.owner = me
        self.count = 1
        return True

    def release(self):
        if not in_sim():
            if _aborting():
                self.owner = None
                self.count = 0
                return
            return self._real.release()
        k = KERNEL
        if self.owner is not k.cur:
            raise RuntimeError("cannot release un-acquired lock")
        self.count -= 1
        if self.count == 0:
            self.owner = None
            ws = self.waiters
            self.waiters = []
            for w in ws:
                k.unblock(w)
            k.yield_("rel")

    def __enter__(self):
        self.acquire()
        return True

    def __exit__(self, *a):
        self.release()

    # used by Condition
    def _release_save(self):
        k = KERNEL
        c = self.count
        self.count = 0
        self.owner = None
        ws = self.waiters
        self.waiters = []
        for w in ws:
            k.unblock(w)
        return c

    def _acquire_restore(self, c):
        k = KERNEL
        me = k.cur
        while self.owner is not None:
            self.waiters.append(me)
            k.block("rlock")
        self.owner = me
        self.count = c

    def _is_owned(self):
        k = KERNEL
        return self.owner is k.cur

    def _at_fork_reinit(self):
        self.owner = None
        self.count = 0
        self.waiters = []
        self._real = _threading.RLock()


class SimCondition:
    _is_sim = True

    def __init__(self, lock=None):
        if lock is None:
            lock = SimRLock()
        self._lock = lock
        self.acquire = lock.acquire
        self.release = lock.release
        self._ws = []          # entries: [task, notified]
        self._real_cond = None

    def __enter__(self):
        return self._lock.__enter__()

    def __exit__(self, *a):
        return self._lock.__exit__(*a)

    def _real(self):
        if self._real_cond is None:
            self._real_cond = _threading.Condition(self._lock._real)
        return self._real_cond

    def wait(self, timeout=None):
        if not in_sim():
            if _aborting():
                raise _k.SimAbort()
            return self._real().wait(timeout)
        k = KERNEL
        me = k.cur
        lk = self._lock
        if isinstance(lk, SimRLock):
            if lk.owner is not me:
                raise RuntimeError("cannot wait on un-acquired lock")
            saved = lk._release_save()
        else:
            if lk.owner is None:
                raise RuntimeError("cannot wait on un-acquired lock")
            saved = None
            lk.owner = None
            ws = lk.waiters
            lk.waiters = []
            for w in ws:
                k.unblock(w)
        entry = [me, False]
        self._ws.append(entry)
        deadline = None if timeout is None else k.now + max(0.0, timeout)
        try:
            while not entry[1]:
                if k.block("cond", deadline):
                    break
        finally:
            if entry in self._ws:
                self._ws.remove(entry)
            if not k.aborting:
                if saved is not None:
                    lk._acquire_restore(saved)
                else:
                    while lk.owner is not None:
                        lk.waiters.append(me)
                        k.block("lock")
                    lk.owner = me
        return entry[1]

    def wait_for(self, predicate, timeout=None):
        if not in_sim():
            if _aborting():
                raise _k.SimAbort()
            return self._real().wait_for(predicate, timeout)
        k = KERNEL
        endtime = None
        waittime = timeout
        result = predicate()
        while not result:
            if waittime is not None:
                if endtime is None:
                    endtime = k.now + waittime
                else:
                    waittime = endtime - k.now
                    if waittime <= 0:
                        break
            self.wait(waittime)
            result = predicate()
        return result

    def notify(self, n=1):
        if not in_sim():
            if _aborting():
                return
            return self._real().notify(n)
        k = KERNEL
        woken = self._ws[:n]
        self._ws = self._ws[n:]
        for e in woken:
            e[1] = True
            k.unblock(e[0])

    def notify_all(self):
        if not in_sim():
            if _aborting():
                return
            return self._real().notify_all()
        self.notify(len(self._ws))


class SimSemaphore:
    def __init__(self, value=1):
        if value < 0:
            raise ValueError("semaphore initial value must be >= 0")
        self._cond = SimCondition(SimLock())
        self._value = value

    def acquire(self, blocking=True, timeout=None):
        if not blocking and timeout is not None:
            raise ValueError("can't specify timeout for non-blocking acquire")
        rc = False
        k = KERNEL
        endtime = None
        with self._cond:
            while self._value == 0:
                if not blocking:
                    break
                if timeout is not None:
                    if endtime is None:
                        endtime = k.now + timeout
                    else:
                        timeout = endtime - k.now
                        if timeout <= 0:
                            break
                self._cond.wait(timeout)
            else:
                self._value -= 1
                rc = True
        return rc

    __enter__ = acquire

    def release(self, n=1):
        with self._cond:
            self._value += n
            self._cond.notify(n)

    def __exit__(self, *a):
        self.release()


class SimEvent:
    def __init__(self):
        self._cond = SimCondition(SimLock())
        self._flag = False

    def is_set(self):
        return self._flag

    def set(self):
        with self._cond:
            self._flag = True
            self._cond.notify_all()

    def clear(self):
        with self._cond:
            self._flag = False

    def wait(self, timeout=None):
        with self._cond:
            signaled = self._flag
            if not signaled:
                signaled = self._cond.wait(timeout)
            return signaled

    def _at_fork_reinit(self):
        pass


class SimSimpleQueue:
    def __init__(self):
        self._items = []
        self._cond = SimCondition(SimLock())

    def put(self, item, block=True, timeout=None):
        with self._cond:
            self._items.append(item)
            self._cond.notify()

    def get(self, block=True, timeout=None):
        k = KERNEL
        with self._cond:
            endtime = None
            while not self._items:
                if not block:
                    raise _queue.Empty
                if timeout is not None:
                    if endtime is None:
                        endtime = k.now + timeout
                    else:
                        timeout = endtime - k.now
                        if timeout <= 0:
                            raise _queue.Empty
                self._cond.wait(timeout)
            return self._items.pop(0)

    def get_nowait(self):
        return self.get(block=False)

    def put_nowait(self, item):
        self.put(item)

    def empty(self):
        return not self._items

    def qsize(self):
        return len(self._items)


class SimThread:
    _counter = itertools.count(1)

    def __init__(self, group=None, target=None, name=None, args=(), kwargs=None, *, daemon=None):
        self._target = target
        self._args = args
        self._kwargs = kwargs or {}
        self.name = name or f"SimThread-{next(SimThread._counter)}"
        self.daemon = bool(daemon)
        self._task = None
        self._real = None
        # sets of threads (ThreadPoolExecutor._threads) are iterated by the stdlib: the
        # hash must not be address-based or the join order would differ per process
        k = KERNEL
        if k is not None:
            k.thread_seq = getattr(k, "thread_seq", 0) + 1
            self._hash = k.thread_seq
        else:
            self._hash = next(SimThread._counter) + 1000

    def __hash__(self):
        return self._hash

    def __eq__(self, other):
        return self is other

    def run(self):
        if self._target is not None:
            self._target(*self._args, **self._kwargs)

    def start(self):
        if not in_sim():
            if _aborting():
                return
            self._real = _threading.Thread(target=self.run, name=self.name, daemon=self.daemon)
            self._real.start()
            return
        k = KERNEL
        self._task = k.spawn(self.run, name=self.name, daemon=self.daemon)
        k.ev("spawn", self._task.name)
        k.yield_("spawn")

    def join(self, timeout=None):
        if self._real is not None:
            return self._real.join(timeout)
        if self._task is None:
            return
        if not in_sim():
            if _aborting():
                return
            self._task.thread.join(timeout)
            return
        KERNEL.join(self._task, timeout)

    def is_alive(self):
        if self._real is not None:
            return self._real.is_alive()
        return self._task is not None and self._task.state != "done"

    @property
    def ident(self):
        if self._task is not None:
            return self._task.ident
        return None


class ThreadingShim:
    """Stands in for the `threading` module inside chosen modules."""
    Lock = SimLock
    RLock = SimRLock
    Condition = SimCondition
    Semaphore = SimSemaphore
    BoundedSemaphore = SimSemaphore
    Event = SimEvent
    Thread = SimThread

    def __getattr__(self, n):
        return getattr(_threading, n)


class QueueShim:
    SimpleQueue = SimSimpleQueue
    Empty = _queue.Empty
    Full = _queue.Full

    def __getattr__(self, n):
        return getattr(_queue, n)


class TimeShim:
    @staticmethod
    def monotonic():
        k = KERNEL
        if k is None:
            return _time.monotonic()
        return k.now

    @staticmethod
    def time():
        k = KERNEL
        if k is None:
            return _time.time()
        return 1_700_000_000.0 + k.now

    @staticmethod
    def sleep(d):
        if not in_sim():
            if _aborting():
                raise _k.SimAbort()
            return _time.sleep(d)
        KERNEL.sleep(d)

    def __getattr__(self, n):
        return getattr(_time, n)


THREADING = ThreadingShim()
QUEUE = QueueShim()
TIME = TimeShim()


# --------------------------------------------------------------- harness helpers

def point(tag="p"):
    """Cooperative preemption point for harness callbacks."""
    if in_sim():
        KERNEL.yield_(tag)
    elif _aborting():
        raise _k.SimAbort()


def sleep(d):
    TIME.sleep(d)


def now():
    return KERNEL.now


def ev(*a):
    return KERNEL.ev(*a)
