"""Seams taken by module-attribute rebinding (DESIGN 2.3).  No source change needed:
`threading.RLock()` inside basilisp.lang.atom looks `threading` up in the module
globals at call time, so objects created after install() carry sim primitives."""
import importlib
import logging

from . import primitives as P

_done = set()


def install_lang(mods=("atom", "promise", "runtime", "multifn", "reference")):
    for m in mods:
        if m in _done:
            continue
        mod = importlib.import_module("basilisp.lang." + m)
        if hasattr(mod, "threading"):
            mod.threading = P.THREADING
        _done.add(m)


def install_futures():
    if "futures" in _done:
        return
    import concurrent.futures.thread as cft
    import concurrent.futures._base as cfb
    cft.threading = P.THREADING
    cft.queue = P.QUEUE
    cft._global_shutdown_lock = P.SimLock()
    cfb.threading = P.THREADING
    cfb.time = P.TIME
    # aborted runs unwind pool workers with SimAbort; the stdlib logs that as critical
    logging.getLogger("concurrent.futures").setLevel(logging.CRITICAL + 10)
    _done.add("futures")
