"""Deterministic baton-passing kernel.

Tasks are *real* threads (so threading.local, the GIL hand-off and native frames
behave as in production) but exactly one of them holds the baton at any instant.
Every scheduling decision is taken by the yielding thread itself from the kernel's
single PRNG (or from a recorded decision list on replay), so one seed is one
repeatable execution and nothing depends on real time.

Vocabulary
  step      one scheduling decision point (yield / block / spin / task end)
  decision  [step, name] recorded whenever the choice was not "stay with current";
            name is a task name or "@timer" (forward clock jump firing a timer)
"""
import hashlib
import heapq
import sys
import threading
import _thread

_get_ident = _thread.get_ident
_alloc = _thread.allocate_lock


class SimAbort(BaseException):
    """Raised inside tasks to unwind them when a run is aborted."""


class Outcome:
    PASS = "PASS"
    DEADLOCK = "DEADLOCK"
    STEPLIMIT = "STEPLIMIT"
    VIOLATION = "VIOLATION"      # oracle failure signalled from inside the run
    STALE = "STALE_REPLAY"
    HARNESS = "HARNESS"


class Failure:
    def __init__(self, kind, detail, task=None):
        self.kind = kind
        self.detail = detail
        self.task = task

    def __repr__(self):
        return f"Failure({self.kind}, {self.detail!r}, task={self.task})"


class Task:
    __slots__ = ("k", "fn", "name", "go", "state", "wait_on", "thread", "result", "exc",
                 "joiners", "block_seq", "timed_out", "prio", "steps", "ident", "spin_mark",
                 "daemon", "steps_at")

    def __init__(self, k, fn, name, daemon=False):
        self.k = k
        self.fn = fn
        self.name = name
        self.go = _alloc()
        self.go.acquire()
        self.state = "runnable"
        self.wait_on = None
        self.result = None
        self.exc = None
        self.joiners = []
        self.block_seq = 0
        self.timed_out = False
        self.prio = 0
        self.steps = 0
        self.ident = None
        self.spin_mark = -1
        self.steps_at = 0
        self.daemon = daemon
        self.thread = threading.Thread(target=self._boot, name="sim-" + name, daemon=True)

    def _boot(self):
        self.ident = _get_ident()
        self.go.acquire()
        k = self.k
        try:
            if k.aborting:
                raise SimAbort()
            k.cur_ident = self.ident
            self.result = self.fn()
        except SimAbort:
            self.exc = "abort"
        except BaseException as e:  # noqa: BLE001 - recorded for the oracle
            if k.aborting:
                self.exc = "abort"
            else:
                self.exc = e
        self.state = "done"
        k._task_done(self)


# ------------------------------------------------------------------ strategies

class RandomWalk:
    name = "rw"

    def __init__(self, rng, p):
        self.rng = rng
        self.p = p

    def knobs(self):
        return {"strategy": "rw", "p": self.p}

    def on_spawn(self, k, t):
        pass

    def choose(self, k, runnable, cur_ok):
        cur = k.cur
        if cur_ok:
            if len(runnable) == 1 or self.rng.random() >= self.p:
                return cur
            others = [t for t in runnable if t is not cur]
            return others[self.rng.randrange(len(others))]
        return runnable[self.rng.randrange(len(runnable))] if len(runnable) > 1 else runnable[0]


class PCT:
    """Probabilistic concurrency testing: random priorities, d-1 change points."""
    name = "pct"

    def __init__(self, rng, d, est_steps):
        self.rng = rng
        self.d = d
        self.est = est_steps
        pts = sorted(rng.randrange(1, max(2, est_steps)) for _ in range(max(0, d - 1)))
        self.points = pts
        self.next_low = d - 1  # priorities given at change points: d-1, d-2, .. 1

    def knobs(self):
        return {"strategy": "pct", "d": self.d, "est": self.est}

    def on_spawn(self, k, t):
        # distinct random priorities above d
        t.prio = self.d + 1 + self.rng.random()

    def choose(self, k, runnable, cur_ok):
        while self.points and k.steps >= self.points[0]:
            self.points.pop(0)
            if k.cur is not None:
                k.cur.prio = self.next_low
                self.next_low -= 1
        best = runnable[0]
        for t in runnable[1:]:
            if t.prio > best.prio:
                best = t
        return best


class Replay:
    name = "replay"

    def __init__(self, decisions):
        self.dec = [tuple(d) for d in decisions]
        self.i = 0

    def knobs(self):
        return {"strategy": "replay"}

    def on_spawn(self, k, t):
        pass

    def peek(self, k):
        if self.i < len(self.dec) and self.dec[self.i][0] == k.steps:
            return self.dec[self.i][1]
        return None

    def choose(self, k, runnable, cur_ok):
        want = self.peek(k)
        if want is not None and want != "@timer":
            self.i += 1
            for t in runnable:
                if t.name == want:
                    return t
            raise StaleReplay(f"step {k.steps}: task {want} not runnable "
                              f"(runnable={[t.name for t in runnable]})")
        if cur_ok or k.cur in runnable:
            # no decision recorded at this step means the baton stayed where it was
            # (also when the current task blocked and its own timer woke it at once)
            return k.cur
        raise StaleReplay(f"step {k.steps}: forced choice with no recorded decision "
                          f"(runnable={[t.name for t in runnable]})")


class StaleReplay(Exception):
    pass


# ---------------------------------------------------------------------- kernel

class Kernel:
    def __init__(self, rng, strategy, max_steps=20000, p_jump=0.0, trace=False):
        self.rng = rng
        self.strategy = strategy
        self.max_steps = max_steps
        self.p_jump = p_jump
        self.tasks = []
        self.by_name = {}
        self.cur = None
        self.cur_ident = None
        self.running = False
        self.aborting = False
        self.failure = None
        self.steps = 0
        self.switches = 0
        self.now = 0.0
        self.timers = []
        self.tseq = 0
        self.decisions = []
        self.sig = hashlib.sha256()      # switch signature: (task, loc) at each hand-off
        self.log = hashlib.sha256()      # full event digest
        self.nlog = 0
        self.trace = [] if trace else None
        self.done_evt = threading.Event()
        self.probes = {}
        self.loc_pairs = set()
        self._last_loc = None
        self.seq = 0                     # global event sequence number for oracles
        self.in_kernel = False
        self.timer_fires = 0
        self.jumps = 0
        self.spins = 0
        self.trace_on = True             # line/opcode preemption enabled (off for 1-task runs)
        self.opcode_on = False
        self.last_progress = 0           # last step that was not a failed native try-lock
        self.consec_spins = 0            # failed native try-locks since the last real progress
        self.fair_tried = set()          # spinners already given their fair retry in a stalled round

    # -- logging ---------------------------------------------------------
    def ev(self, *a):
        self.nlog += 1
        self.seq += 1
        s = repr(a)
        self.log.update(s.encode())
        if self.trace is not None:
            self.trace.append((self.seq, self.now, a))
        return self.seq

    def probe(self, name, n=1):
        self.probes[name] = self.probes.get(name, 0) + n

    # -- tasks -----------------------------------------------------------
    def spawn(self, fn, name=None, daemon=False):
        if name is None:
            name = f"T{len(self.tasks)}"
        if name in self.by_name:
            i = 2
            while f"{name}#{i}" in self.by_name:
                i += 1
            name = f"{name}#{i}"
        t = Task(self, fn, name, daemon)
        self.tasks.append(t)
        self.by_name[name] = t
        self.strategy.on_spawn(self, t)
        t.thread.start()
        return t

    def in_sim(self):
        return self.running and not self.aborting and _get_ident() == self.cur_ident

    # -- scheduling ------------------------------------------------------
    def _runnable(self):
        out = []
        tasks = self.tasks
        for t in tasks:
            st = t.state
            if st == "runnable":
                out.append(t)
            elif st == "spinning":
                # A failed native try-lock is worth retrying once some OTHER task has taken a step
                # of any kind since (a native release is not a kernel step, so even another task's
                # failed try-lock may have been preceded by one).  Endless rounds of retries with no
                # real progress are cut off in _pick (consec_spins).
                mark = t.spin_mark
                for o in tasks:
                    if o is not t and o.steps_at > mark:
                        out.append(t)
                        break
        return out

    def _fire_timer(self):
        """Advance the clock to the earliest live timer and wake its task."""
        while self.timers:
            at, _, t, bseq = heapq.heappop(self.timers)
            if t.state != "blocked" or t.block_seq != bseq:
                continue
            if at > self.now:
                self.now = at
            t.timed_out = True
            t.state = "runnable"
            t.wait_on = None
            self.timer_fires += 1
            self.ev("timer", t.name)
            return True
        return False

    def _has_live_timer(self):
        for at, _, t, bseq in self.timers:
            if t.state == "blocked" and t.block_seq == bseq:
                return True
        return False

    def _pick(self, cur_ok):
        """Return the next task to run, firing timers when nothing is runnable."""
        # optional forward clock jump while tasks are runnable (fault kind)
        strat = self.strategy
        if isinstance(strat, Replay):
            if strat.peek(self) == "@timer":
                strat.i += 1
                if not self._fire_timer():
                    raise StaleReplay(f"step {self.steps}: no timer to fire")
                self.jumps += 1
                self.decisions.append([self.steps, "@timer"])
        elif self.p_jump and self.timers and self.rng.random() < self.p_jump:
            if self._has_live_timer() and self._fire_timer():
                self.jumps += 1
                self.decisions.append([self.steps, "@timer"])
        while self.timers and self.timers[0][0] <= self.now:
            # timers already due (timeout 0, or several deadlines at one instant).  Stale heads
            # (the waiter was woken otherwise) are just dropped: they must not make _fire_timer
            # skip ahead to a LATER live timer and advance the clock while tasks are runnable.
            at, _, t, bseq = self.timers[0]
            if t.state != "blocked" or t.block_seq != bseq:
                heapq.heappop(self.timers)
                continue
            if not self._fire_timer():
                break
        while True:
            r = self._runnable()
            if r and self.consec_spins > 2 * len(self.tasks) + 2:
                # whole rounds of retries failed with no real progress in between.  If a plainly
                # runnable task exists the spinners are starving it (priority inversion under PCT:
                # the lock holder has the lowest priority) - let it run.  Otherwise give EVERY
                # spinner one more retry in task order, bypassing the strategy's priorities (a
                # low-priority spinner whose lock was released natively may have been starved by
                # two higher ones); only when all of them failed again do the spinners wait for a
                # blocked task (fire its timer) or for each other (deadlock).
                plain = [t for t in r if t.state == "runnable"]
                if plain:
                    r = plain
                else:
                    fair = [t for t in r if t.name not in self.fair_tried]
                    if fair:
                        self.fair_tried.add(fair[0].name)
                        r = [fair[0]]
                    else:
                        r = []
            if r:
                break
            if not self._fire_timer():
                return None
            self.consec_spins = 0
            self.fair_tried = set()
        cur = self.cur
        ok = cur_ok and cur is not None and cur in r
        nxt = strat.choose(self, r, ok)
        return nxt

    def _handoff(self, nxt, loc):
        cur = self.cur
        if nxt is cur:
            return
        self.switches += 1
        self.decisions.append([self.steps, nxt.name])
        self.sig.update(f"{cur.name if cur else '-'}>{nxt.name}@{loc}|".encode())
        self.cur = nxt
        self.cur_ident = nxt.ident
        nxt.go.release()
        if cur is not None and cur.state != "done":
            cur.go.acquire()
            self.cur_ident = cur.ident
            if self.aborting:
                raise SimAbort()

    def _step(self, loc):
        cur = self.cur
        self.steps += 1
        cur.steps += 1
        cur.steps_at = self.steps
        if not (type(loc) is tuple and loc[0] == "spin"):
            self.last_progress = self.steps
            self.consec_spins = 0
            if self.fair_tried:
                self.fair_tried = set()
        else:
            self.consec_spins += 1
        if self.steps > self.max_steps:
            self.fail(Outcome.STEPLIMIT, f"step limit {self.max_steps} at {loc}")
        ll = self._last_loc
        if ll is not None and ll[0] is not cur:
            self.loc_pairs.add((ll[1], loc))
        self._last_loc = (cur, loc)

    def yield_(self, loc="y"):
        if self.aborting:
            raise SimAbort()
        self._step(loc)
        self.log.update(f"y{self.cur.name}{loc}".encode())
        self.nlog += 1
        if self.trace is not None:
            self.trace.append((self.seq, self.now, ("y", self.cur.name, loc)))
        try:
            nxt = self._pick(True)
        except StaleReplay as e:
            self.fail(Outcome.STALE, str(e))
        self._handoff(nxt, loc)

    def block(self, on, deadline=None):
        """Block the current task until unblock() or the virtual deadline.
        Returns True iff woken by the deadline."""
        if self.aborting:
            raise SimAbort()
        cur = self.cur
        self._step(("block", on))
        cur.state = "blocked"
        cur.wait_on = on
        cur.block_seq += 1
        cur.timed_out = False
        if deadline is not None:
            self.tseq += 1
            heapq.heappush(self.timers, (deadline, self.tseq, cur, cur.block_seq))
        self.ev("b", cur.name, on)
        try:
            nxt = self._pick(False)
        except StaleReplay as e:
            cur.state = "runnable"
            self.fail(Outcome.STALE, str(e))
        if nxt is None:
            cur.state = "runnable"
            self.fail(Outcome.DEADLOCK, self._blocked_desc(extra=f"{cur.name}:{on}"))
        self._handoff(nxt, "block")
        return cur.timed_out

    def unblock(self, t):
        if t.state == "blocked":
            t.state = "runnable"
            t.wait_on = None

    def sleep(self, d):
        if d <= 0:
            self.yield_("sleep0")
            return
        self.block("sleep", self.now + d)

    def spin(self, on="native"):
        """The current task failed a try-lock on a native mutex: it may not be
        scheduled again until some other task has made a step."""
        if self.aborting:
            raise SimAbort()
        cur = self.cur
        self._step(("spin", on))
        self.spins += 1
        cur.state = "spinning"
        cur.spin_mark = self.steps
        cur.wait_on = on
        self.log.update(f"s{cur.name}".encode())
        try:
            nxt = self._pick(False)
        except StaleReplay as e:
            cur.state = "runnable"
            self.fail(Outcome.STALE, str(e))
        if nxt is None:
            cur.state = "runnable"
            self.fail(Outcome.DEADLOCK, self._blocked_desc(extra=f"{cur.name}:spin:{on}"))
        if nxt is cur:   # cannot happen: a spinning task is never eligible at once
            cur.state = "runnable"
            return
        self._handoff(nxt, "spin")
        cur.state = "runnable"
        cur.wait_on = None

    def _blocked_desc(self, extra=None):
        parts = [f"{t.name}:{t.wait_on}" for t in self.tasks
                 if t.state in ("blocked", "spinning")]
        return "all tasks blocked: " + ", ".join(sorted(parts))

    def fail(self, kind, detail):
        """Record the first failure and abort the run (called from the current task)."""
        if self.failure is None:
            self.failure = Failure(kind, detail, self.cur.name if self.cur else None)
        self.aborting = True
        self.done_evt.set()
        raise SimAbort()

    def _task_done(self, t):
        if self.aborting:
            self.done_evt.set()
            return
        self.steps += 1
        self.last_progress = self.steps
        self.consec_spins = 0
        self.fair_tried = set()
        t.steps_at = self.steps
        for j in t.joiners:
            self.unblock(j)
        t.joiners = []
        self.ev("done", t.name)
        try:
            nxt = self._pick(False)
        except StaleReplay as e:
            self.failure = Failure(Outcome.STALE, str(e), t.name)
            self.aborting = True
            self.done_evt.set()
            return
        if nxt is None:
            left = [x for x in self.tasks if x.state != "done"]
            if any(not x.daemon for x in left):
                self.failure = Failure(Outcome.DEADLOCK, self._blocked_desc(), t.name)
            if left:
                self.aborting = True
            self.done_evt.set()
            return
        self.switches += 1
        self.decisions.append([self.steps, nxt.name])
        self.sig.update(f"{t.name}>{nxt.name}@end|".encode())
        self.cur = nxt
        self.cur_ident = nxt.ident
        nxt.go.release()

    def join(self, t, timeout=None):
        if t.state == "done":
            self.yield_("join")
            return True
        deadline = None if timeout is None else self.now + timeout
        while t.state != "done":
            t.joiners.append(self.cur)
            if self.block(("join", t.name), deadline):
                return False
        return True

    # -- driver side -----------------------------------------------------
    def run(self, wall_timeout=300.0):
        """Called from the driver thread after the initial tasks were spawned."""
        if not self.tasks:
            return None
        self.running = True
        try:
            first = self._pick(False)
        except StaleReplay as e:
            self.failure = Failure(Outcome.STALE, str(e))
            first = None
            self.aborting = True
        if first is not None:
            self.decisions.append([0, first.name])
            self.cur = first
            self.cur_ident = first.ident
            first.go.release()
            if not self.done_evt.wait(wall_timeout):
                self.failure = Failure(Outcome.HARNESS, "wall timeout (native hang?) cur=%s" %
                                       (self.cur.name if self.cur else None))
                self.aborting = True
                self.running = False
                return self.failure
        # unwind: the task that held the baton first, then every other one in turn
        self._unwind()
        self.running = False
        return self.failure

    def _unwind(self):
        order = []
        if self.cur is not None:
            order.append(self.cur)
        order += [t for t in self.tasks if t is not self.cur]
        for t in order:
            if t.thread.is_alive():
                if t.state != "done" and t is not self.cur:
                    self.aborting = True
                    self.cur_ident = t.ident
                    try:
                        t.go.release()
                    except RuntimeError:
                        pass
                t.thread.join(10.0)
                if t.thread.is_alive() and self.failure is not None \
                        and self.failure.kind != Outcome.HARNESS:
                    self.failure = Failure(Outcome.HARNESS,
                                           f"task {t.name} did not unwind; first failure: "
                                           f"{self.failure!r}")
        # tasks spawned during unwinding
        for t in self.tasks:
            if t.thread.is_alive():
                self.aborting = True
                try:
                    t.go.release()
                except RuntimeError:
                    pass
                t.thread.join(10.0)

    def digest(self):
        return self.log.hexdigest()

    def signature(self):
        return self.sig.hexdigest()[:16]
