"""Simulated stream sockets on top of the kernel (DESIGN 8a: reliable ordered byte stream).

recv(n) returns 1..n available bytes (how many is a seeded choice), blocks when none,
b"" after an orderly close, raises ConnectionResetError after a reset.  sendall delivers
everything or raises BrokenPipeError.  Every fragment size and failure point comes from a
per-direction PRNG derived from the workload, so it does not depend on the schedule.
"""
import random

from . import primitives as P


class Pipe:
    def __init__(self, name):
        self.name = name
        self.buf = bytearray()
        self.closed = False
        self.reset = False
        self.cond = P.SimCondition(P.SimLock())
        self.delivered = 0


class SimSocket:
    def __init__(self, name, rx, tx, seed, recv_bias="mixed", fail_sends=(), port=50000):
        self.name = name
        self.rx = rx
        self.tx = tx
        self.rng = random.Random(seed)
        self.recv_bias = recv_bias
        self.fail_sends = set(fail_sends)
        self.nsend = 0
        self.dropped = []          # payloads of sendall calls that were made to fail
        self.sent_log = []         # (index, payload, ok)
        self.port = port
        self.recv_calls = 0
        self.closed = False

    # --- server-facing API (what on-connect uses)
    def getsockname(self):
        return ("127.0.0.1", self.port)

    def recv(self, n):
        rx = self.rx
        with rx.cond:
            while not rx.buf and not rx.closed and not rx.reset:
                rx.cond.wait()
            if rx.reset:
                raise ConnectionResetError(104, "Connection reset by peer")
            if rx.buf:
                avail = min(n, len(rx.buf))
                k = self._recv_size(avail)
                data = bytes(rx.buf[:k])
                del rx.buf[:k]
                rx.delivered += k
                self.recv_calls += 1
                return data
            return b""

    def _recv_size(self, avail):
        b = self.recv_bias
        r = self.rng.random()
        if b == "all" or avail == 1:
            return avail
        if b == "byte":
            return 1
        if r < 0.35:
            return avail
        if r < 0.6:
            return 1
        return self.rng.randint(1, avail)

    def sendall(self, data):
        i = self.nsend
        self.nsend += 1
        P.point("sendall")
        if i in self.fail_sends:
            self.dropped.append(bytes(data))
            self.sent_log.append((i, bytes(data), False))
            raise BrokenPipeError(32, "Broken pipe")
        tx = self.tx
        with tx.cond:
            if tx.closed:
                self.sent_log.append((i, bytes(data), False))
                raise BrokenPipeError(32, "Broken pipe")
            tx.buf += data
            tx.cond.notify_all()
        self.sent_log.append((i, bytes(data), True))

    def close(self):
        self.closed = True
        tx = self.tx
        with tx.cond:
            tx.closed = True
            tx.cond.notify_all()

    # --- client-side helpers
    def send_fragment(self, data):
        tx = self.tx
        with tx.cond:
            tx.buf += data
            tx.cond.notify_all()

    def shutdown_write(self):
        tx = self.tx
        with tx.cond:
            tx.closed = True
            tx.cond.notify_all()

    def reset_peer(self):
        tx = self.tx
        with tx.cond:
            tx.reset = True
            tx.cond.notify_all()

    def read_until_closed(self, out, limit=1 << 22):
        """Client: collect everything the peer sends until it closes."""
        rx = self.rx
        while True:
            with rx.cond:
                while not rx.buf and not rx.closed:
                    rx.cond.wait()
                if rx.buf:
                    out += rx.buf
                    del rx.buf[:]
                    continue
                return

    def drain(self, out):
        rx = self.rx
        with rx.cond:
            if rx.buf:
                out += rx.buf
                del rx.buf[:]


def socketpair(name, seed, **server_kw):
    c2s = Pipe(name + ":c2s")
    s2c = Pipe(name + ":s2c")
    server = SimSocket(name + ":server", rx=c2s, tx=s2c, seed=seed, **server_kw)
    client = SimSocket(name + ":client", rx=s2c, tx=c2s, seed=seed ^ 0x5bd1e995, recv_bias="all")
    return server, client
