"""Runs checks: lanes (fresh interpreters), aggregation, minimisation, replay, evidence."""
import faulthandler
import gc
import hashlib
import importlib
import json
import os
import random
import shutil
import subprocess
import sys
import time

from . import bootstrap as B
from . import kernel as KN
from . import primitives as P

LANES = 16
CHECKS = {
    "C06": "checks.c06_lazyseq",
    "C11": "checks.c11_bindings",
    "C12": "checks.c12_atom",
    "C13": "checks.c13_deref",
    "C14": "checks.c14_cache",
    "C18": "checks.c18_multifn",
    "C19": "checks.c19_framing",
}


def load_check(cid):
    return importlib.import_module(CHECKS[cid])


def H(*parts):
    h = hashlib.sha256("|".join(str(p) for p in parts).encode()).digest()
    return int.from_bytes(h[:8], "big")


# ------------------------------------------------------------------ knobs

def default_knobs(rng, check, workload):
    est_choices = getattr(check, "EST_STEPS", [60, 150, 400])
    r = rng.random()
    if r < 0.45:
        kn = {"strategy": "rw", "p": rng.choice([0.05, 0.2, 0.5])}
    elif r < 0.55:
        kn = {"strategy": "rw", "p": 0.8}
    else:
        kn = {"strategy": "pct", "d": rng.choice([1, 2, 2, 3]), "est": rng.choice(est_choices)}
    kn["max_steps"] = getattr(check, "MAX_STEPS", 20000)
    kn["p_jump"] = rng.choice(getattr(check, "P_JUMP", [0.0]))
    kn["opcode"] = rng.random() < getattr(check, "P_OPCODE", 0.0)
    return kn


def make_kernel(sched_seed, knobs, decisions=None, trace=False):
    rng = random.Random(sched_seed)
    if decisions is not None:
        strat = KN.Replay(decisions)
    elif knobs["strategy"] == "rw":
        strat = KN.RandomWalk(rng, knobs["p"])
    else:
        strat = KN.PCT(rng, knobs["d"], knobs["est"])
    k = KN.Kernel(rng, strat, max_steps=knobs.get("max_steps", 20000),
                  p_jump=knobs.get("p_jump", 0.0), trace=trace)
    k.opcode_on = bool(knobs.get("opcode", False))
    return k


def verdict(status, signature=None, detail=None, **kw):
    d = {"status": status, "signature": signature, "detail": detail}
    d.update(kw)
    return d


def kernel_failure_verdict(cid, k, solo=False):
    """Map a kernel-level failure to a verdict (None if the kernel finished cleanly)."""
    f = k.failure
    if f is None:
        return None
    if f.kind == KN.Outcome.DEADLOCK:
        return verdict("violation", f"{cid}/deadlock", f.detail)
    if f.kind == KN.Outcome.STEPLIMIT:
        if solo:
            return verdict("violation", f"{cid}/solo-nontermination", f.detail)
        return verdict("inconclusive", f"{cid}/steplimit", f.detail)
    if f.kind == KN.Outcome.STALE:
        return verdict("stale", f"{cid}/stale-replay", f.detail)
    if f.kind == KN.Outcome.VIOLATION:
        return verdict("violation", f.detail[0], f.detail[1])
    return verdict("harness", f"{cid}/harness", f.detail)


def execute(check, workload, knobs, sched_seed, decisions=None, trace=False):
    """One simulated run.  Returns (record, kernel)."""
    k = make_kernel(sched_seed, knobs, decisions, trace)
    P.KERNEL = k
    gc_was = gc.isenabled()
    gc.disable()
    t0 = time.perf_counter()
    try:
        try:
            v = check.run(workload, k)
        except KN.SimAbort:
            v = verdict("harness", f"{check.ID}/harness", "SimAbort escaped to the driver")
        except Exception as e:  # noqa: BLE001
            import traceback
            v = verdict("harness", f"{check.ID}/harness",
                        "driver exception: " + "".join(traceback.format_exception(e))[-1500:])
    finally:
        P.KERNEL = None
        if gc_was:
            gc.enable()
    rec = dict(v)
    rec.update(steps=k.steps, switches=k.switches, vtime=k.now, swsig=k.signature(),
               digest=k.digest(), decisions=k.decisions, probes=dict(k.probes),
               timer_fires=k.timer_fires, jumps=k.jumps, spins=k.spins,
               wall=time.perf_counter() - t0, ntasks=len(k.tasks))
    return rec, k


# ------------------------------------------------------------------ lane

def run_seed_for(verif_seed, cid, index):
    return H("run", verif_seed, cid, index)


def generate(check, verif_seed, tier, index):
    rs = run_seed_for(verif_seed, check.ID, index)
    rng = random.Random(rs)
    workload = check.gen(rng, tier, index)
    gk = getattr(check, "gen_knobs", None)
    knobs = gk(rng, workload) if gk else default_knobs(rng, check, workload)
    sched_seed = rng.getrandbits(63)
    return rs, workload, knobs, sched_seed


def lane_main(args):
    cid = args.check
    faulthandler.enable()
    faulthandler.dump_traceback_later(args.lane_timeout, exit=True)
    B.boot_basilisp()
    check = load_check(cid)
    check.lane_setup()
    agg = {"runs": 0, "status": {}, "steps": 0, "switches": 0, "vtime": 0.0, "sigs": set(),
           "nontrivial_sigs": set(), "faults": {}, "probes": {}, "loc_pairs": set(),
           "violations": [], "samples": [], "digests": [], "timer_fires": 0, "jumps": 0,
           "spins": 0, "wall_run": 0.0, "inconclusive": [], "harness": [], "tasks": 0,
           "extra": {}}
    per_sig = {}
    t_start = time.time()
    idxs = range(args.lane, args.runs, args.lanes)
    want_digests = args.digests
    run_timeout = min(args.lane_timeout, 600)     # no single run comes near this; a run that does is blocked natively
    cur_f = open(args.out + ".cur", "w")
    for n, i in enumerate(idxs):
        rs, workload, knobs, sched_seed = generate(check, args.seed, args.tier, i)
        # which run is executing (read by the driver if this lane dies or hangs: a task blocked NATIVELY while holding
        # the baton cannot be unwound by the kernel, only reported)
        cur_f.seek(0)
        cur_f.write(json.dumps({"index": i, "seed": args.seed, "workload": workload, "knobs": knobs})[:20000])
        cur_f.truncate()
        cur_f.flush()
        faulthandler.cancel_dump_traceback_later()
        faulthandler.dump_traceback_later(run_timeout, exit=True)
        rec, k = execute(check, workload, knobs, sched_seed)
        agg["runs"] += 1
        st = rec["status"]
        agg["status"][st] = agg["status"].get(st, 0) + 1
        agg["steps"] += rec["steps"]
        agg["switches"] += rec["switches"]
        agg["vtime"] += rec["vtime"]
        agg["timer_fires"] += rec["timer_fires"]
        agg["jumps"] += rec["jumps"]
        agg["spins"] += rec["spins"]
        agg["wall_run"] += rec["wall"]
        agg["tasks"] += rec["ntasks"]
        for kk, vv in rec["probes"].items():
            agg["probes"][kk] = agg["probes"].get(kk, 0) + vv
        for kk, vv in (rec.get("faults") or {}).items():
            agg["faults"][kk] = agg["faults"].get(kk, 0) + vv
        for kk, vv in (rec.get("extra") or {}).items():
            if isinstance(vv, (int, float)):
                agg["extra"][kk] = agg["extra"].get(kk, 0) + vv
        agg["sigs"].add(rec["swsig"])
        if check.nontrivial(rec):
            agg["nontrivial_sigs"].add(hashlib.sha256(
                (rec["swsig"] + json.dumps(workload, sort_keys=True)).encode()).hexdigest()[:16])
        for a, b in k.loc_pairs:
            agg["loc_pairs"].add(f"{a}|{b}")
        if want_digests:
            agg["digests"].append([i, rec["digest"], st, rec.get("signature")])
        if (not agg["samples"]) or (len(agg["samples"]) < 2 and rec["switches"] > 1):
            agg["samples"].append({"index": i, "workload": workload, "knobs": knobs,
                                   "decisions_head": rec["decisions"][:30],
                                   "steps": rec["steps"], "status": st})
        if st in ("violation", "harness", "inconclusive", "stale"):
            full = {"index": i, "run_seed": rs, "sched_seed": sched_seed, "workload": workload,
                    "knobs": knobs, "decisions": rec["decisions"], "signature": rec["signature"],
                    "detail": rec["detail"], "digest": rec["digest"], "switches": rec["switches"],
                    "hashseed": int(os.environ.get("PYTHONHASHSEED", "0"))}
            if st == "violation":
                c = per_sig.get(rec["signature"], 0)
                per_sig[rec["signature"]] = c + 1
                if c < 3:
                    agg["violations"].append(full)
            elif st == "inconclusive":
                if len(agg["inconclusive"]) < 3:
                    agg["inconclusive"].append(full)
            else:
                if len(agg["harness"]) < 3:
                    agg["harness"].append(full)
        if n % 50 == 0:
            gc.collect()
    agg["violation_counts"] = per_sig
    agg["wall"] = time.time() - t_start
    for key in ("sigs", "nontrivial_sigs", "loc_pairs"):
        agg[key] = sorted(agg[key])
    fin = getattr(check, "lane_finish", None)
    if fin:
        agg["lane_extra"] = fin()
    with open(args.out, "w") as f:
        json.dump(agg, f)
    faulthandler.cancel_dump_traceback_later()
    sys.stdout.flush()
    os._exit(0)


# ------------------------------------------------------------------ driver

def _known_findings():
    p = os.path.join(B.VERIF, "known_findings.json")
    try:
        with open(p) as f:
            return json.load(f).get("findings", [])
    except FileNotFoundError:
        return []


def tier_runs(check, tier, override=None):
    if override:
        return override
    return check.TIERS[tier]["runs"]


def run_lanes(check, tier, seed, runs, digests=False, lanes=LANES, procs=None, timeout=None):
    B.ensure_warm()
    rundir = os.path.join(B.CACHE, "run", f"{check.ID}-{os.getpid()}-{int(time.time()*1000)%100000}")
    os.makedirs(rundir, exist_ok=True)
    hs = getattr(check, "HASHSEEDS", [0])
    if tier == "thorough":
        hs = getattr(check, "HASHSEEDS_THOROUGH", hs)
    procs = procs or int(os.environ.get("VERIF_PROCS", 0)) or check.TIERS[tier].get("procs") or min(lanes, os.cpu_count() or 4)
    timeout = timeout or check.TIERS[tier].get("timeout", 3000)
    pending = list(range(lanes))
    running = {}
    outs = {}
    errors = []
    t0 = time.time()
    simctl = os.path.join(B.VERIF, "simctl.py")
    while pending or running:
        while pending and len(running) < procs:
            l = pending.pop(0)
            out = os.path.join(rundir, f"lane{l}.json")
            cmd = [B.PY, simctl, "lane", "--check", check.ID, "--tier", tier, "--seed", str(seed),
                   "--lane", str(l), "--lanes", str(lanes), "--runs", str(runs), "--out", out,
                   "--lane-timeout", str(check.TIERS[tier].get("lane_timeout", 600))]
            if digests:
                cmd.append("--digests")
            env = B.controlled_env(hs[l % len(hs)], {"VERIF_TIER_NOW": tier})
            errf = open(os.path.join(rundir, f"lane{l}.err"), "w")
            p = subprocess.Popen(cmd, env=env, stdout=errf, stderr=errf, cwd=B.VERIF)
            running[l] = (p, out, errf)
        time.sleep(0.05)
        for l in list(running):
            p, out, errf = running[l]
            rc = p.poll()
            if rc is None:
                if time.time() - t0 > timeout:
                    p.kill()
                    p.wait()
                    errf.close()
                    errors.append((l, "timeout", _tail(os.path.join(rundir, f"lane{l}.err"))
                                   + "\n[lane was executing] " + _tail(out + ".cur", 1500)))
                    del running[l]
                continue
            errf.close()
            del running[l]
            if rc != 0 or not os.path.exists(out):
                errors.append((l, f"exit {rc}", _tail(os.path.join(rundir, f"lane{l}.err"))
                               + "\n[lane was executing] " + _tail(out + ".cur", 1500)))
            else:
                with open(out) as f:
                    outs[l] = json.load(f)
    shutil.rmtree(rundir, ignore_errors=True)
    return outs, errors


def _tail(path, n=3000):
    try:
        with open(path) as f:
            return f.read()[-n:]
    except OSError:
        return ""


def merge(outs):
    m = {"runs": 0, "status": {}, "steps": 0, "switches": 0, "vtime": 0.0, "sigs": set(),
         "nontrivial_sigs": set(), "faults": {}, "probes": {}, "loc_pairs": set(),
         "violations": [], "samples": [], "timer_fires": 0, "jumps": 0, "spins": 0,
         "wall_run": 0.0, "inconclusive": [], "harness": [], "violation_counts": {},
         "digests": [], "tasks": 0, "extra": {}, "lane_extra": []}
    for l in sorted(outs):
        a = outs[l]
        for key in ("runs", "steps", "switches", "vtime", "timer_fires", "jumps", "spins",
                    "wall_run", "tasks"):
            m[key] += a[key]
        for key in ("status", "faults", "probes", "violation_counts", "extra"):
            for kk, vv in a[key].items():
                m[key][kk] = m[key].get(kk, 0) + vv
        for key in ("sigs", "nontrivial_sigs", "loc_pairs"):
            m[key].update(a[key])
        for key in ("violations", "inconclusive", "harness", "digests"):
            m[key].extend(a[key])
        if a.get("lane_extra") is not None:
            m["lane_extra"].append(a["lane_extra"])
        if len(m["samples"]) < 3:
            m["samples"].extend(a["samples"][:1])
    m["digests"].sort()
    m["violations"].sort(key=lambda v: v["index"])
    return m


def write_evidence(check, tier, seed, m, wall, nviol, extra_cov=None):
    desc = check.describe()
    runs = m["runs"]
    cov = {
        "evaluations": runs,
        "distinct_nontrivial": len(m["nontrivial_sigs"]),
        "rule": desc["rule"],
        "samples": m["samples"][:3],
        "exhaustive": False,
        "engine": getattr(check, "ENGINE", "threadsim"),
        "simulated_runs_per_hour": int(runs / wall * 3600) if wall > 0 else 0,
        "seeds_per_hour": int(runs / wall * 3600) if wall > 0 else 0,
        "simulated_seconds_covered": round(m["vtime"], 3),
        "scheduler_steps": m["steps"],
        "context_switches": m["switches"],
        "tasks_spawned": m["tasks"],
        "distinct_switch_signatures": len(m["sigs"]),
        "distinct_adjacent_location_pairs": len(m["loc_pairs"]),
        "faults_fired": m["faults"],
        "timer_fires": m["timer_fires"],
        "clock_jumps_injected": m["jumps"],
        "native_lock_spins": m["spins"],
        "probes": m["probes"],
        "outcomes": m["status"],
        "violation_signatures": m["violation_counts"],
        "unreached_fault_kinds": [f for f in desc.get("fault_kinds", []) if not m["faults"].get(f)],
        "real_components": desc.get("real", []),
        "stubbed_components": desc.get("stub", []),
        "hash_seeds": desc.get("hashseeds", [0]),
        "tree": B.tree_hash(),
    }
    if m.get("extra"):
        cov["extra_counters"] = m["extra"]
    if extra_cov:
        cov.update(extra_cov)
    ev = {"property_id": check.ID, "tier": tier, "seed": int(seed), "level": check.LEVEL,
          "coverage": cov, "assumptions": desc.get("assumptions", []), "wall_s": round(wall, 2),
          "violations": nviol}
    os.makedirs(os.path.join(B.VERIF, "evidence"), exist_ok=True)
    p = os.path.join(B.VERIF, "evidence", f"{check.ID}.json")
    with open(p + ".tmp", "w") as f:
        json.dump(ev, f, indent=1, sort_keys=True, default=str)
    os.replace(p + ".tmp", p)
    return p


def check_main(args):
    cid = args.check
    check = load_check(cid)
    tier = args.tier
    seed = int(os.environ.get("VERIF_SEED", args.seed if args.seed is not None else 1))
    t0 = time.time()
    print(f"[{cid}] tier={tier} VERIF_SEED={seed} tree={B.tree_hash()}", flush=True)
    B.ensure_warm(verbose=True)
    custom = getattr(check, "driver_main", None)
    if custom:
        return custom(args, seed)
    runs = tier_runs(check, tier, args.runs)
    pre = getattr(check, "preflight", None)
    msg = pre() if pre else None
    if msg:
        outs, errors = {}, [("-", "preflight", msg)]
    else:
        outs, errors = run_lanes(check, tier, seed, runs)
    m = merge(outs)
    wall = time.time() - t0
    rc = 0
    if errors:
        for l, why, tail in errors:
            print(f"HARNESS lane {l}: {why}\n{tail}", file=sys.stderr)
        rc = 2
    extra_fn = getattr(check, "driver_extra", None)
    extra_cov = None
    extra_viol = []
    if extra_fn:
        extra_cov, extra_viol = extra_fn(args, seed, tier)
    nviol, lines, rc2 = report_violations(check, m, seed, tier, extra_viol)
    wall = time.time() - t0
    write_evidence(check, tier, seed, m, wall, nviol, extra_cov)
    for ln in lines:
        print(ln, flush=True)
    st = m["status"]
    print(f"[{cid}] runs={m['runs']} outcomes={st} steps={m['steps']} switches={m['switches']} "
          f"distinct_sigs={len(m['sigs'])} nontrivial={len(m['nontrivial_sigs'])} "
          f"faults={m['faults']} wall={wall:.1f}s", flush=True)
    inc = st.get("inconclusive", 0)
    for h in m["inconclusive"][:2]:
        print(f"[{cid}] inconclusive run index={h['index']}: {h['signature']} {str(h['detail'])[:300]} "
              f"knobs={h['knobs']}", flush=True)
    if m["runs"] and inc / m["runs"] > 0.01:
        print(f"HARNESS: {inc} of {m['runs']} runs inconclusive (>1%)", file=sys.stderr)
        rc = max(rc, 2)
    if st.get("harness") or st.get("stale"):
        for h in m["harness"][:3]:
            print(f"HARNESS run index={h['index']}: {h['signature']} {h['detail']}", file=sys.stderr)
        rc = max(rc, 2)
    if rc2 == 1:
        return 1
    return rc


def report_violations(check, m, seed, tier, extra_viol=()):
    """Minimise, write replays, classify against known findings."""
    known = {f["signature"]: f for f in _known_findings()
             if f.get("property") == check.ID and f.get("status") == "known"}
    lines = []
    nviol = 0
    rc = 0
    seen = set()
    for v in m["violations"]:
        sig = v["signature"]
        if sig in seen:
            continue
        seen.add(sig)
        cnt = m["violation_counts"].get(sig, 1)
        if sig in known:
            lines.append(f"KNOWN-FINDING: property={check.ID} {sig} ({cnt} runs) - "
                         f"{known[sig].get('description', '')}")
            continue
        nviol += 1
        path = write_replay(check, v, seed, minimise=True)
        lines.append(f"VIOLATION property={check.ID} replay={path}")
        lines.append(f"  signature={sig} runs_hit={cnt} first_index={v['index']} detail={str(v['detail'])[:600]}")
        rc = 1
    for ev in extra_viol:
        sig = ev["signature"]
        if sig in seen:
            continue
        seen.add(sig)
        if sig in known:
            lines.append(f"KNOWN-FINDING: property={check.ID} {sig} - {known[sig].get('description', '')}")
            continue
        nviol += 1
        path = ev.get("replay") or write_plain_replay(check, ev, seed)
        lines.append(f"VIOLATION property={check.ID} replay={path}")
        lines.append(f"  signature={sig} detail={str(ev.get('detail'))[:600]}")
        rc = 1
    return nviol, lines, rc


def write_plain_replay(check, ev, seed):
    os.makedirs(os.path.join(B.VERIF, "replays"), exist_ok=True)
    name = f"{check.ID}-{seed}-{hashlib.sha256(ev['signature'].encode()).hexdigest()[:8]}.json"
    path = os.path.join(B.VERIF, "replays", name)
    doc = {"property": check.ID, "engine": getattr(check, "ENGINE", ""), "tree": B.tree_hash(),
           "verif_seed": seed, "violation": {"signature": ev["signature"], "detail": ev.get("detail")}}
    doc.update(ev.get("replay_doc", {}))
    with open(path, "w") as f:
        json.dump(doc, f, indent=1, default=str)
    return path


def write_replay(check, v, seed, minimise=True):
    os.makedirs(os.path.join(B.VERIF, "replays"), exist_ok=True)
    doc = {"property": check.ID, "engine": getattr(check, "ENGINE", "threadsim"),
           "tree": B.tree_hash(), "verif_seed": seed, "run_index": v["index"],
           "hashseed": v["hashseed"], "knobs": v["knobs"], "workload": v["workload"],
           "sched_seed": v["sched_seed"], "decisions": v["decisions"],
           "violation": {"signature": v["signature"], "detail": v["detail"]},
           "digest": v["digest"], "minimised": False}
    name = f"{check.ID}-{seed}-{v['index']}.json"
    path = os.path.join(B.VERIF, "replays", name)
    with open(path, "w") as f:
        json.dump(doc, f, indent=1, default=str)
    if minimise:
        try:
            r = subprocess.run([B.PY, os.path.join(B.VERIF, "simctl.py"), "minimise", path],
                               env=B.controlled_env(v["hashseed"]), capture_output=True, text=True,
                               timeout=900, cwd=B.VERIF)
            if r.returncode not in (0,):
                sys.stderr.write(f"[minimise] exit {r.returncode}: {r.stderr[-1500:]}\n")
        except subprocess.TimeoutExpired:
            sys.stderr.write("[minimise] timed out; unminimised replay kept\n")
    return path


# ------------------------------------------------------------------ minimise / replay

def _search(check, workload, knobs0, signature, base, tries):
    """Seeded re-search of schedules for `workload`; returns best (fewest switches) hit."""
    best = None
    variants = [dict(knobs0),
                dict(knobs0, strategy="pct", d=2, est=knobs0.get("est", 150)),
                dict(knobs0, strategy="rw", p=0.2),
                dict(knobs0, strategy="pct", d=1, est=knobs0.get("est", 150)),
                dict(knobs0, strategy="rw", p=0.5),
                dict(knobs0, strategy="pct", d=3, est=knobs0.get("est", 150))]
    hits = 0
    if getattr(check, "DETERMINISTIC_RUN", False):
        tries = 1            # no schedule to search: the workload alone decides the run
    for j in range(tries):
        kn = variants[j % len(variants)]
        ss = H("min", base, j) >> 1
        rec, _ = execute(check, workload, kn, ss)
        if rec["status"] == "violation" and rec["signature"] == signature:
            hits += 1
            if best is None or rec["switches"] < best[0]["switches"]:
                best = (rec, kn, ss)
            if hits >= 6 or (best[0]["switches"] <= 2 and hits >= 2):
                break
    return best


def minimise_main(args):
    with open(args.path) as f:
        doc = json.load(f)
    check = load_check(doc["property"])
    B.boot_basilisp()
    check.lane_setup()
    faulthandler.dump_traceback_later(850, exit=True)
    sig = doc["violation"]["signature"]
    workload = doc["workload"]
    knobs = doc["knobs"]
    # confirm the original first
    rec, _ = execute(check, workload, knobs, doc["sched_seed"], decisions=doc["decisions"])
    if not (rec["status"] == "violation" and rec["signature"] == sig):
        print(f"[minimise] original did not reproduce in this process: {rec['status']} {rec['signature']}")
        return 3
    best = (rec, knobs, doc["sched_seed"], workload)
    t0 = time.time()
    improved = True
    rounds = 0
    while improved and time.time() - t0 < 600:
        improved = False
        rounds += 1
        for cand in check.shrink(best[3]):
            hit = _search(check, cand, best[1], sig, H("cand", json.dumps(cand, sort_keys=True)), args.tries)
            if hit is not None:
                best = (hit[0], hit[1], hit[2], cand)
                improved = True
                break
            if time.time() - t0 > 600:
                break
    # final schedule polish: more seeds on the final workload
    hit = _search(check, best[3], best[1], sig, H("final", rounds), args.tries * 2)
    if hit is not None and hit[0]["switches"] <= best[0]["switches"]:
        best = (hit[0], hit[1], hit[2], best[3])
    rec, kn, ss, wl = best
    doc.update(workload=wl, knobs=kn, sched_seed=ss, decisions=rec["decisions"], digest=rec["digest"],
               minimised=True, original={"workload": workload, "switches": len(doc["decisions"])},
               violation={"signature": sig, "detail": rec["detail"]})
    with open(args.path, "w") as f:
        json.dump(doc, f, indent=1, default=str)
    print(f"[minimise] {args.path}: switches {len(doc['original'])} -> {rec['switches']}, rounds={rounds}")
    return 0


def replay_main(args):
    with open(args.path) as f:
        doc = json.load(f)
    cid = doc["property"]
    check = load_check(cid)
    hs = doc.get("hashseed", 0)
    B.ensure_env(hs)
    B.ensure_warm()
    custom = getattr(check, "replay_custom", None)
    if custom and "workload" not in doc:
        return custom(doc, args)
    B.boot_basilisp()
    check.lane_setup()
    faulthandler.dump_traceback_later(300, exit=True)
    sig = doc["violation"]["signature"]
    tree_now = B.tree_hash()
    if tree_now != doc.get("tree"):
        print(f"[replay] note: tree hash differs (replay {doc.get('tree')} vs now {tree_now})")
    rec, k = execute(check, doc["workload"], doc["knobs"], doc["sched_seed"],
                     decisions=doc["decisions"], trace=args.trace)
    if args.trace and k.trace:
        for e in k.trace[-400:]:
            print("   ", e)
    if rec["status"] == "violation" and rec["signature"] == sig:
        same = rec["digest"] == doc.get("digest")
        print(f"VIOLATION property={cid} replay={os.path.abspath(args.path)}")
        print(f"REPRODUCED signature={sig} digest_match={same} detail={str(rec['detail'])[:800]}")
        return 1
    print(f"[replay] exact schedule gave status={rec['status']} signature={rec['signature']} "
          f"detail={str(rec['detail'])[:300]}")
    if args.no_research:
        print("NOT-REPRODUCED")
        return 0
    hit = _search(check, doc["workload"], doc["knobs"], sig, H("replay", doc["sched_seed"]), args.tries)
    if hit is not None:
        print(f"VIOLATION property={cid} replay={os.path.abspath(args.path)}")
        print(f"REPRODUCED-BY-RESEARCH signature={sig} (recorded schedule is stale for this tree; "
              f"the recorded workload still violates under sched_seed={hit[2]} knobs={hit[1]}) "
              f"detail={str(hit[0]['detail'])[:600]}")
        return 1
    print(f"NOT-REPRODUCED (exact schedule and {args.tries} re-searched schedules of the recorded workload)")
    return 0


def one_main(args):
    """Debug helper: one run by index, optional full event trace dump."""
    B.ensure_warm()
    B.boot_basilisp()
    check = load_check(args.check)
    check.lane_setup()
    faulthandler.dump_traceback_later(120, exit=True)
    rs, workload, knobs, sched_seed = generate(check, args.seed, args.tier, args.index)
    rec, k = execute(check, workload, knobs, sched_seed, trace=bool(args.dump))
    print(json.dumps({"status": rec["status"], "signature": rec["signature"], "digest": rec["digest"],
                      "steps": rec["steps"], "switches": rec["switches"], "knobs": knobs}, default=str))
    print("workload:", json.dumps(workload)[:3000])
    print("detail:", str(rec["detail"])[:3000])
    if args.dump:
        with open(args.dump, "w") as f:
            for e in k.trace:
                f.write(repr(e) + "\n")
    return 0
