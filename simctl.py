#!/venv/bin/python
"""Entry point of the verification machinery (see DESIGN.md section 8)."""
import argparse
import os
import sys

sys.path.insert(0, os.path.dirname(os.path.abspath(__file__)))

from sim import bootstrap as B  # noqa: E402


def main():
    ap = argparse.ArgumentParser(prog="simctl")
    sub = ap.add_subparsers(dest="cmd", required=True)
    s = sub.add_parser("setup")
    s = sub.add_parser("check")
    s.add_argument("check")
    s.add_argument("--tier", default=os.environ.get("VERIF_TIER", "quick"), choices=["quick", "thorough"])
    s.add_argument("--seed", type=int, default=None)
    s.add_argument("--runs", type=int, default=None)
    s = sub.add_parser("lane")
    s.add_argument("--check", required=True)
    s.add_argument("--tier", default="quick")
    s.add_argument("--seed", type=int, required=True)
    s.add_argument("--lane", type=int, required=True)
    s.add_argument("--lanes", type=int, required=True)
    s.add_argument("--runs", type=int, required=True)
    s.add_argument("--out", required=True)
    s.add_argument("--lane-timeout", type=int, default=600)
    s.add_argument("--digests", action="store_true")
    s = sub.add_parser("replay")
    s.add_argument("path")
    s.add_argument("--trace", action="store_true")
    s.add_argument("--no-research", action="store_true")
    s.add_argument("--tries", type=int, default=400)
    s = sub.add_parser("minimise")
    s.add_argument("path")
    s.add_argument("--tries", type=int, default=120)
    s = sub.add_parser("one")
    s.add_argument("check")
    s.add_argument("--index", type=int, required=True)
    s.add_argument("--seed", type=int, default=1)
    s.add_argument("--tier", default="quick")
    s.add_argument("--hashseed", type=int, default=0)
    s.add_argument("--dump", default=None)
    s = sub.add_parser("selftest")
    s.add_argument("what", choices=["determinism", "sensitivity", "models"])
    s.add_argument("--checks", default="")
    s.add_argument("--runs", type=int, default=400)
    s.add_argument("--mutants", default="")
    args = ap.parse_args()

    if args.cmd == "setup":
        B.ensure_env(0)
        B.ensure_warm(verbose=True)
        print("[setup] ok tree=" + B.tree_hash())
        return 0
    if args.cmd == "lane":
        from sim import runner
        return runner.lane_main(args)
    if args.cmd == "check":
        B.ensure_env(0)
        from sim import runner
        return runner.check_main(args)
    if args.cmd == "one":
        B.ensure_env(args.hashseed)
        from sim import runner
        return runner.one_main(args)
    if args.cmd == "replay":
        from sim import runner
        return runner.replay_main(args)
    if args.cmd == "minimise":
        from sim import runner
        return runner.minimise_main(args)
    if args.cmd == "selftest":
        B.ensure_env(0)
        from selftest import driver
        return driver.main(args)


if __name__ == "__main__":
    sys.exit(main())
