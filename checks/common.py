"""Helpers shared by the threadsim checks."""
from basilisp.lang import runtime, symbol as sym

_core = None


def core_ns():
    global _core
    if _core is None:
        _core = runtime.Namespace.get(sym.symbol("basilisp.core"))
    return _core


def core_fn(name):
    v = core_ns().find(sym.symbol(name))
    if v is None:
        raise KeyError(name)
    return v.value


def exc_name(e):
    return type(e).__name__


def shrink_tasks(workload, key="tasks"):
    """Generic candidates: drop a task, drop one op (smaller first)."""
    import copy
    tasks = workload[key]
    if len(tasks) > 1:
        for i in range(len(tasks)):
            w = copy.deepcopy(workload)
            del w[key][i]
            yield w
    for i, t in enumerate(tasks):
        if len(t) > 1 or len(tasks) > 1:
            for j in range(len(t)):
                w = copy.deepcopy(workload)
                del w[key][i][j]
                if not w[key][i]:
                    del w[key][i]
                if w[key]:
                    yield w
