"""C06 - lazy sequences: each element produced once, on demand, safely shared.

Real: the native LazySeq/Cons/Sequence/SeqIterator (rebuilt from /repo/rust, side-loaded),
lang/seq.py, core.lpy lazy-seq/map/filter/concat/iterate/iterator-seq/first/rest/next/...
Seam: a contended acquisition of a cell's native mutex calls the guarded hook
(kernel.spin) instead of blocking natively; the mutex itself stays the arbiter.
Auxiliary, NOT simulation: a real-thread probe of the blocking slow path (c06_probe.py).
"""
import copy
import os
import subprocess
import sys

from sim import bootstrap as B
from sim import primitives as P
from sim import runner as R
from sim import shims, trace

ID = "C06"
ENGINE = "threadsim"
LEVEL = "exploration"
TIERS = {"quick": {"runs": 40000, "timeout": 3600, "lane_timeout": 1800}, "thorough": {"runs": 1200000, "timeout": 21600,
                                                                "lane_timeout": 10800}}
EST_STEPS = [60, 200, 600]
P_OPCODE = 0.0
MAX_STEPS = 20000
INF = 10 ** 6

_st = {}
_fns = {}


class Boom(Exception):
    pass


def _hook():
    k = P.KERNEL
    if k is not None and k.running:
        if k.aborting:
            raise P._k.SimAbort()
        if P.in_sim():
            k.probe("cell_contended")
            k.spin("lazyseq")
            return
    import time
    time.sleep(0)


def lane_setup():
    from checks import common
    import basilisp._lang.seq as nseq
    from basilisp.lang import seq as lseq
    setter = getattr(nseq, "_verif_set_contention_hook", None)
    if setter is None:
        B.harness_exit("HARNESS: native module lacks _verif_set_contention_hook (guarded hook commit missing)")
    setter(_hook)
    _st["lseq"] = lseq
    from basilisp.lang import vector as vec
    _st["vec"] = vec
    for n in ("cons", "first", "rest", "next", "seq", "count", "nth", "map", "filter", "concat", "iterate",
              "iterator-seq", "realized?", "take", "doall", "vec", "drop", "take-while", "keep"):
        _fns[n] = common.core_fn(n)
    trace.register_lisp_ns(common.core_ns(), ["map", "filter", "iterate", "take", "drop", "take-while", "keep"], "core.lpy")


def preflight():
    src = os.path.join(B.REPO, "rust", "src", "basilisp_native", "seq.rs")
    try:
        if "_verif_set_contention_hook" in open(src).read():
            return None
    except OSError:
        pass
    return ("the guarded contention hook (_verif_set_contention_hook) is not in rust/src/basilisp_native/seq.rs: "
            "simulated lanes cannot run, only the real-thread probe was executed")


# ------------------------------------------------------------------ generation

OPS = ["first", "first", "rest", "rest", "next", "seq", "count", "nth", "iterall", "realized?"]


def gen(rng, tier, index):
    n = rng.choice([2, 3, 4, 5, 6, 8])
    faults = rng.random() < 0.5
    source = rng.choice(["lazy", "lazy", "lazy", "iterator", "iterate"])
    cells = []
    for i in range(n + 1):
        c = {"sleep": 0, "throw_first": False, "touch": None, "points": rng.choice([1, 2])}
        if faults and source == "lazy":
            if rng.random() < 0.2:
                c["sleep"] = 0.01
            if rng.random() < 0.15:
                c["throw_first"] = True
            r = rng.random()
            if r < 0.08:
                c["touch"] = "self"
            elif r < 0.2 and i + 1 <= n:
                c["touch"] = rng.randrange(i + 1, n + 1)
        cells.append(c)
    if faults and source in ("iterator", "iterate"):
        for c in cells:
            if rng.random() < 0.2:
                c["sleep"] = 0.01
        if source == "iterator" and rng.random() < 0.3:
            cells[rng.randrange(n)]["throw_first"] = True
    stages = ["map", "filter", "concat", "map", "filter", "concat", "take", "drop", "take-while", "map2", "keep"]
    pipeline = rng.choice([[], [], [rng.choice(stages)], [rng.choice(stages)], [rng.choice(stages), rng.choice(stages)]])
    consumers = []
    for _ in range(rng.choice([2, 2, 3])):
        ops = []
        for _ in range(rng.choice([1, 2, 3, 4, 5])):
            o = rng.choice(OPS)
            if source == "iterate" and o in ("count", "iterall"):
                o = "first"           # the reference stream is a finite prefix of an infinite one
            ops.append([o, rng.randrange(0, 3)] if o == "nth" else [o])
        consumers.append(ops)
    # how each consumer reaches the shared head: directly, or through its OWN (lazy-seq head) wrapper -
    # then the shared cells are realized by the wrapper's walk over nested lazy seqs, not by seq()
    via = [rng.choice(["direct", "direct", "wrap"]) for _ in consumers] if rng.random() < 0.4 else ["direct"] * len(consumers)
    return {"n": n, "source": source, "cells": cells, "pipeline": pipeline, "consumers": consumers,
            "faults": faults, "via": via}


def shrink(workload):
    cons = workload["consumers"]
    if len(cons) > 1:
        for i in range(len(cons)):
            w = copy.deepcopy(workload)
            del w["consumers"][i]
            if w.get("via"):
                del w["via"][i]
            yield w
    for i, t in enumerate(cons):
        if len(t) > 1:
            for j in range(len(t)):
                w = copy.deepcopy(workload)
                del w["consumers"][i][j]
                yield w
    if workload["pipeline"]:
        for i in range(len(workload["pipeline"])):
            w = copy.deepcopy(workload)
            del w["pipeline"][i]
            yield w
    if workload["n"] > 1:
        w = copy.deepcopy(workload)
        w["n"] -= 1
        del w["cells"][-2]
        for c in w["cells"]:
            if isinstance(c["touch"], int) and c["touch"] > w["n"]:
                c["touch"] = None
        for t in w["consumers"]:
            for o in t:
                if o[0] == "nth":
                    o[1] = 0
        yield w
    for i, c in enumerate(workload["cells"]):
        for key, val in (("sleep", 0), ("throw_first", False), ("touch", None), ("points", 1)):
            if c[key] != val:
                w = copy.deepcopy(workload)
                w["cells"][i][key] = val
                yield w
    if workload["source"] != "lazy":
        w = copy.deepcopy(workload)
        w["source"] = "lazy"
        yield w
    if any(v == "wrap" for v in workload.get("via", [])):
        for i, v in enumerate(workload["via"]):
            if v == "wrap":
                w = copy.deepcopy(workload)
                w["via"][i] = "direct"
                yield w


def nontrivial(rec):
    return rec["switches"] > 1 and (rec["probes"].get("cell_contended", 0) > 0 or bool(rec.get("faults")))


def describe():
    return {
        "rule": "workload = source of 2-8 instrumented cells (lazy-seq producers that yield, sleep, throw on first call, "
                "touch themselves or a later cell; or a single-use Python iterator; or iterate f) under a pipeline of 0-2 "
                "stages from map/filter/concat/take/drop/take-while/keep/two-collection map, walked by 2-3 consumer threads with scripts of first/rest/next/seq/count/"
                "nth/iterate-all/realized?. Non-trivial = more than one hand-off AND (a cell's native mutex was contended "
                "OR an injected fault fired); distinct = distinct (switch signature, workload).",
        "real": ["rust LazySeq/Cons/Sequence/SeqIterator/to_seq (built from /repo/rust at this tree)", "basilisp.lang.seq",
                 "core.lpy lazy-seq map filter concat iterate iterator-seq first rest next seq count nth",
                 "runtime.concat_from_seq", "parking_lot ReentrantMutex (try_lock path)", "real OS threads"],
        "stub": ["blocking slow path of the cell mutex (replaced by kernel.spin through the guarded hook)",
                 "OS scheduler", "clock"],
        "fault_kinds": ["producer_throw", "producer_sleep", "producer_touch_later", "producer_touch_self", "iterator_throw"],
        "assumptions": ["the blocking native wait is covered only by the declared real-thread probe (c06_probe.py)",
                        "a producer never touches an earlier cell (that is a lock-order cycle in Clojure too)"],
        "hashseeds": [0],
    }


# ------------------------------------------------------------------ reference

def _pred(x):
    return x % 20 == 0


TAKE_K = 3
DROP_K = 2
MAP2_VEC = [100, 200, 300, 400]


def _tw(x):
    return x < 45


def _keepf(x):
    return None if x % 30 == 10 else x + 2


def _stage_ref(stage, inp):
    if stage == "map":
        return [x + 1 for x in inp]
    if stage == "filter":
        return [x for x in inp if _pred(x)]
    if stage == "concat":
        return list(inp) + [9000, 9010]
    if stage == "take":
        return list(inp[:TAKE_K])
    if stage == "drop":
        return list(inp[DROP_K:])
    if stage == "take-while":
        out = []
        for x in inp:
            if not _tw(x):
                break
            out.append(x)
        return out
    if stage == "map2":
        return [a + b for a, b in zip(inp, MAP2_VEC)]
    if stage == "keep":
        return [_keepf(x) for x in inp if _keepf(x) is not None]
    raise ValueError(stage)


def _stage_need(stage, inp, j):
    """Input index that must be available (len(inp) = 'the end must have been seen') for output index j."""
    n = len(inp)
    if stage == "map":
        return min(j, n)
    if stage == "filter":
        idx = [i for i, x in enumerate(inp) if _pred(x)]
        return idx[j] if j < len(idx) else n
    if stage == "keep":
        idx = [i for i, x in enumerate(inp) if _keepf(x) is not None]
        return idx[j] if j < len(idx) else n
    if stage == "concat":
        return j if j < n else n
    if stage == "take":
        # cell k of (take k s) answers "empty" without touching s
        return min(j, TAKE_K - 1, n)
    if stage == "drop":
        return min(j + DROP_K, n)
    if stage == "take-while":
        ref = _stage_ref(stage, inp)
        return j if j < len(ref) else min(len(ref), n)
    if stage == "map2":
        return min(j, len(MAP2_VEC), n)
    raise ValueError(stage)


def reference(workload):
    n = workload["n"]
    src = [10 * i for i in range(n)]
    streams = [src]
    for s in workload["pipeline"]:
        streams.append(_stage_ref(s, streams[-1]))
    return streams


def source_need(workload, streams, j):
    for s, inp in zip(reversed(workload["pipeline"]), reversed(streams[:-1])):
        j = _stage_need(s, inp, j)
    return min(j, workload["n"])


# ------------------------------------------------------------------ execution

def run(workload, k):
    lseq = _st["lseq"]
    n = workload["n"]
    cells_cfg = workload["cells"]
    streams = reference(workload)
    Rf = streams[-1]
    source = workload["source"]
    st = {"calls": [0] * (n + 1), "active": [0] * (n + 1), "ok_returns": [0] * (n + 1), "events": [],
          "faults": {}, "viol": None, "demand": -1, "fcalls": {}, "throws": []}

    def fault(name):
        st["faults"][name] = st["faults"].get(name, 0) + 1

    def viol(sig, detail):
        if st["viol"] is None:
            st["viol"] = (sig, detail)

    def on_produce(i):
        """Common instrumentation of 'the code producing source element i'."""
        cfg = cells_cfg[i]
        st["calls"][i] += 1
        nth = st["calls"][i]
        st["active"][i] += 1
        if st["active"][i] > 1:
            viol(f"{ID}/producer-concurrent", {"cell": i})
        if st["ok_returns"][i] > 0:
            viol(f"{ID}/producer-rerun-after-success", {"cell": i, "call": nth})
        need = source_need(workload, streams, st["demand"]) if st["demand"] >= 0 else -1
        st["events"].append(("pstart", k.ev("pstart", i, nth), i, k.cur.name if k.cur else "?", st["demand"], need))
        return cfg, nth

    cells = [None] * (n + 1)

    def make_cell(i):
        def producer():
            cfg, nth = on_produce(i)
            try:
                for _ in range(cfg["points"]):
                    P.point("producer")
                if cfg["sleep"]:
                    fault("producer_sleep")
                    P.sleep(cfg["sleep"])
                if cfg["touch"] == "self":
                    fault("producer_touch_self")
                    _fns["first"](cells[i])
                elif cfg["touch"] is not None:
                    fault("producer_touch_later")
                    st["touch_demand"] = max(st.get("touch_demand", -1), cfg["touch"])
                    _fns["first"](cells[cfg["touch"]])
                if cfg["throw_first"] and nth == 1:
                    fault("producer_throw")
                    st["throws"].append((k.ev("pthrow", i), k.cur.name, i))
                    raise Boom(f"cell {i}")
                st["ok_returns"][i] += 1
                k.ev("pend", i)
                if i == n:
                    return None
                return _fns["cons"](10 * i, cells[i + 1])
            finally:
                st["active"][i] -= 1
        return lseq.LazySeq(producer)

    if source == "lazy":
        for i in range(n + 1):
            cells[i] = make_cell(i)
        head = cells[0]
    elif source == "iterator":
        class It:
            def __init__(self):
                self.i = 0

            def __iter__(self):
                return self

            def __next__(self):
                i = self.i
                cfg, nth = on_produce(min(i, n))
                try:
                    P.point("iterator")
                    if cfg["sleep"]:
                        fault("producer_sleep")
                        P.sleep(cfg["sleep"])
                    if cfg["throw_first"] and nth == 1 and i < n:
                        fault("iterator_throw")
                        st["throws"].append((k.ev("pthrow", i), k.cur.name, i))
                        raise Boom(f"iterator element {i}")
                    self.i += 1
                    st["ok_returns"][min(i, n)] += 1
                    if i >= n:
                        raise StopIteration
                    return 10 * i
                finally:
                    st["active"][min(i, n)] -= 1
        head = _fns["iterator-seq"](It())
    else:   # iterate: element i+1 = f(element i); "producer i+1" is the call f(10*i)
        def f(x):
            i = x // 10 + 1
            if i <= n:
                cfg, nth = on_produce(i)
                try:
                    P.point("iterate-f")
                    if cfg["sleep"]:
                        fault("producer_sleep")
                        P.sleep(cfg["sleep"])
                    st["ok_returns"][i] += 1
                finally:
                    st["active"][i] -= 1
            return x + 10
        st["calls"][0] = 1
        st["ok_returns"][0] = 1
        head = _fns["take"](n, _fns["iterate"](f, 0))

    def mk_mapf(si):
        def mapf(x):
            st["fcalls"][(f"map@{si}", x)] = st["fcalls"].get((f"map@{si}", x), 0) + 1
            P.point("mapf")
            return x + 1
        return mapf

    def mk_pred(si):
        def pred(x):
            st["fcalls"][(f"pred@{si}", x)] = st["fcalls"].get((f"pred@{si}", x), 0) + 1
            P.point("pred")
            return _pred(x)
        return pred

    def mk_fn(si, tag, fn):
        def g(x):
            st["fcalls"][(f"{tag}@{si}", x)] = st["fcalls"].get((f"{tag}@{si}", x), 0) + 1
            P.point(tag)
            return fn(x)
        return g

    def mk_fn2(si):
        def g(a, b):
            st["fcalls"][(f"map2@{si}", a)] = st["fcalls"].get((f"map2@{si}", a), 0) + 1
            P.point("map2")
            return a + b
        return g

    for si, s in enumerate(workload["pipeline"]):
        if s == "map":
            head = _fns["map"](mk_mapf(si), head)
        elif s == "filter":
            head = _fns["filter"](mk_pred(si), head)
        elif s == "concat":
            head = _fns["concat"](head, [9000, 9010])
        elif s == "take":
            head = _fns["take"](TAKE_K, head)
        elif s == "drop":
            head = _fns["drop"](DROP_K, head)
        elif s == "take-while":
            head = _fns["take-while"](mk_fn(si, "tw", _tw), head)
        elif s == "map2":
            head = _fns["map"](mk_fn2(si), head, _st["vec"].vector(MAP2_VEC))
        elif s == "keep":
            head = _fns["keep"](mk_fn(si, "keep", _keepf), head)
        else:
            raise ValueError(s)

    ops_log = []

    via = workload.get("via") or ["direct"] * len(workload["consumers"])
    heads = [head if v == "direct" else lseq.LazySeq(lambda: head) for v in via]

    def consumer(ci, script):
        def body():
            cur = heads[ci]     # the real cursor
            c = 0               # reference cursor (index into Rf); len(Rf) = exhausted
            L = len(Rf)
            for oi, op in enumerate(script):
                kind = op[0]
                if kind in ("first", "seq", "rest", "realized?"):
                    dem = c
                elif kind == "next":
                    dem = c + 1
                elif kind == "nth":
                    dem = c + op[1]
                else:
                    dem = INF
                if kind != "realized?":
                    st["demand"] = max(st["demand"], dem)
                inv = k.ev("inv", ci, oi, kind)
                new_cur = cur
                try:
                    if kind == "first":
                        got = _fns["first"](cur)
                    elif kind == "seq":
                        got = _fns["seq"](cur) is None
                    elif kind == "rest":
                        new_cur = _fns["rest"](cur)
                        got = "ok"
                    elif kind == "next":
                        new_cur = _fns["next"](cur)
                        got = new_cur is None
                    elif kind == "count":
                        got = _fns["count"](cur)
                    elif kind == "nth":
                        got = _fns["nth"](cur, op[1], "NF")
                    elif kind == "iterall":
                        got = list(iter(cur)) if cur is not None else []
                    else:
                        got = "skip" if cur is None or not hasattr(cur, "is_realized") else bool(cur.is_realized)
                    res = ("ok", got)
                except P._k.SimAbort:
                    raise
                except BaseException as e:  # noqa: BLE001
                    if k.aborting:          # PanicException from the hook = the run is being unwound
                        raise P._k.SimAbort()
                    res = ("exc", type(e).__name__)
                ret = k.ev("ret", ci, oi, res if not isinstance(res[1], list) else ("ok", len(res[1])))
                # reference
                if kind == "first":
                    want = Rf[c] if c < L else None
                elif kind == "seq":
                    want = c >= L
                elif kind == "rest":
                    want = "ok"
                elif kind == "next":
                    want = c + 1 >= L
                elif kind == "count":
                    want = L - c if c < L else 0
                elif kind == "nth":
                    want = Rf[c + op[1]] if c + op[1] < L else "NF"
                elif kind == "iterall":
                    want = Rf[c:]
                else:
                    want = None
                ops_log.append({"task": f"C{ci}", "op": op, "cursor": c, "inv": inv, "ret": ret, "result": res,
                                "want": want})
                if res[0] == "ok":
                    cur = new_cur
                    if kind == "rest":
                        c = min(c + 1, L)
                    elif kind == "next":
                        c = min(c + 1, L)
                        if cur is None:
                            c = L
        return body

    for ci, script in enumerate(workload["consumers"]):
        k.spawn(consumer(ci, script), name=f"C{ci}")
    k.run()
    faults = st["faults"]
    kv = R.kernel_failure_verdict(ID, k)
    if kv is not None:
        kv["faults"] = faults
        if kv["signature"] == f"{ID}/deadlock":
            kv["detail"] = {"kernel": kv["detail"], "workload": workload}
        return kv
    for t in k.tasks:
        if t.exc is not None and t.exc != "abort":
            return R.verdict("harness", f"{ID}/harness", f"task {t.name} raised {t.exc!r}", faults=faults)
    det = {"ops": ops_log, "producer_calls": st["calls"], "producer_events": st["events"][:60],
           "reference": Rf, "throws": st["throws"]}
    if st["viol"]:
        return R.verdict("violation", st["viol"][0], dict(det, **st["viol"][1]), faults=faults)
    # values / exceptions per consumer
    throws_left = {}
    for seq_, task, cell in st["throws"]:
        throws_left.setdefault(task, []).append(seq_)
    for o in ops_log:
        res = o["result"]
        mine = [s for s in throws_left.get(o["task"], []) if o["inv"] < s < o["ret"]]
        if res[0] == "exc":
            if res[1] != "Boom" or not mine:
                return R.verdict("violation", f"{ID}/consumer-raised:{res[1]}", dict(det, op=o), faults=faults)
            continue
        if mine:
            return R.verdict("violation", f"{ID}/producer-exception-swallowed", dict(det, op=o), faults=faults)
        if o["op"][0] == "realized?":
            continue
        if res[1] != o["want"]:
            kind = "truncated" if (o["op"][0] in ("first", "nth") and res[1] in (None, "NF")) or \
                (o["op"][0] in ("count", "iterall") and (res[1] if isinstance(res[1], int) else len(res[1])) <
                 (o["want"] if isinstance(o["want"], int) else len(o["want"]))) or \
                (o["op"][0] in ("seq", "next") and res[1] is True) else "wrong-element"
            after = "after-producer-exception" if st["throws"] else "no-exception"
            return R.verdict("violation", f"{ID}/{kind}:{after}", dict(det, op=o), faults=faults)
    # at-most-once for successful producer returns and for pipeline fns
    for i, c in enumerate(st["ok_returns"]):
        if c > 1:
            return R.verdict("violation", f"{ID}/producer-ran-twice", dict(det, cell=i), faults=faults)
    for (fn, x), c in st["fcalls"].items():
        if c > 1 and not st["throws"]:
            return R.verdict("violation", f"{ID}/pipeline-fn-ran-twice:{fn.split('@')[0]}", dict(det, arg=x, calls=c), faults=faults)
    # demand: a producer may start only if what has been invoked so far needs it
    for ev in st["events"]:
        _, seq_, i, task, demand, need = ev
        allowed = max(need, st.get("touch_demand", -1)) if workload["source"] == "lazy" else need
        if i > allowed:
            return R.verdict("violation", f"{ID}/computed-beyond-demand:{workload['source']}",
                             dict(det, cell=i, demanded_output_index=demand, source_index_needed=need), faults=faults)
    return R.verdict("pass", faults=faults)


# ------------------------------------------------------------------ real-thread probe (driver side)

PROBE_VARIANTS = [("first", 2), ("seq", 2), ("map", 2), ("iter", 3), ("count", 2), ("realized", 3), ("wrap", 2)]


def _run_probe(variant, nthreads):
    cmd = [B.PY, os.path.join(B.VERIF, "checks", "c06_probe.py"), variant, str(nthreads)]
    try:
        r = subprocess.run(cmd, env=B.controlled_env(0), capture_output=True, text=True, timeout=180, cwd=B.VERIF)
    except subprocess.TimeoutExpired:
        return "hang", "parent timeout"
    if r.returncode == 0:
        return "ok", r.stdout.strip().splitlines()[-1] if r.stdout.strip() else ""
    if "PROBE" in r.stdout:
        return "wrong", r.stdout.strip().splitlines()[-1]
    return "hang", (r.stderr[-1500:])


def driver_extra(args, seed, tier):
    from concurrent.futures import ThreadPoolExecutor
    viol = []
    res = {}
    with ThreadPoolExecutor(max_workers=6) as ex:
        futs = {v: ex.submit(_run_probe, *v) for v in PROBE_VARIANTS}
        for v, f in futs.items():
            res[v] = f.result()
    for v, (status, info) in res.items():
        if status == "ok":
            continue
        status2, info2 = _run_probe(*v)          # a hang must reproduce before it is reported
        if status2 == status:
            sig = f"{ID}/native-deadlock:{v[0]}" if status == "hang" else f"{ID}/native-probe-wrong:{v[0]}"
            viol.append({"signature": sig, "detail": {"variant": v[0], "threads": v[1], "first": info[-600:],
                                                      "second": info2[-600:]},
                         "replay_doc": {"probe": {"variant": v[0], "threads": v[1]}}})
    cov = {"native_probe": {"engine": "real threads, no simulator (declared auxiliary)",
                            "variants": [f"{a}x{b}" for a, b in PROBE_VARIANTS],
                            "results": {f"{a}x{b}": res[(a, b)][0] for a, b in PROBE_VARIANTS}}}
    return cov, viol


def replay_custom(doc, args):
    v = doc["probe"]
    s1, i1 = _run_probe(v["variant"], v["threads"])
    s2, i2 = ("ok", "") if s1 == "ok" else _run_probe(v["variant"], v["threads"])
    if s1 != "ok" and s1 == s2:
        print(f"VIOLATION property={ID} replay={os.path.abspath(args.path)}")
        print(f"REPRODUCED signature={doc['violation']['signature']} status={s1} (twice) {i1[-400:]}")
        return 1
    print(f"NOT-REPRODUCED probe {v} -> {s1}/{s2} {i1[-200:]}")
    return 0
