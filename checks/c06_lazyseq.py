"""C06 - lazy sequences: each element produced once, on demand, safely shared.

Real: the native LazySeq/Cons/Sequence/SeqIterator (rebuilt from /repo/rust, side-loaded),
lang/seq.py, core.lpy lazy-seq/map/filter/concat/iterate/iterator-seq/first/rest/next/...
Seam: a contended acquisition of a cell's native mutex calls the guarded hook
(kernel.spin) instead of blocking natively; the mutex itself stays the arbiter.
Auxiliary, NOT simulation: a real-thread probe of the blocking slow path (c06_probe.py).
"""
import copy
import os
import subprocess
import sys

from sim import bootstrap as B
from sim import primitives as P
from sim import runner as R
from sim import shims, trace
from models import seqref as SR

ID = "C06"
ENGINE = "threadsim"
LEVEL = "exploration"
TIERS = {"quick": {"runs": 40000, "timeout": 3600, "lane_timeout": 1800}, "thorough": {"runs": 1200000, "timeout": 21600,
                                                                "lane_timeout": 10800}}
EST_STEPS = [60, 200, 600]
P_OPCODE = 0.0
MAX_STEPS = 20000
INF = 10 ** 6

_st = {}
_fns = {}


class Boom(Exception):
    pass


def _hook():
    k = P.KERNEL
    if k is not None and k.running:
        if k.aborting:
            raise P._k.SimAbort()
        if P.in_sim():
            k.probe("cell_contended")
            k.spin("lazyseq")
            return
    import time
    time.sleep(0)


def lane_setup():
    from checks import common
    import basilisp._lang.seq as nseq
    from basilisp.lang import seq as lseq
    setter = getattr(nseq, "_verif_set_contention_hook", None)
    if setter is None:
        B.harness_exit("HARNESS: native module lacks _verif_set_contention_hook (guarded hook commit missing)")
    setter(_hook)
    _st["lseq"] = lseq
    from basilisp.lang import vector as vec
    _st["vec"] = vec
    for n in ("cons", "first", "rest", "next", "seq", "count", "nth", "map", "filter", "concat", "iterate",
              "iterator-seq", "realized?", "take", "doall", "vec", "drop", "take-while", "keep", "remove", "mapcat", "with-meta",
              "interleave", "map-indexed", "keep-indexed", "drop-while", "take-nth", "partition", "partition-all",
              "partition-by", "distinct", "dedupe", "interpose", "cycle", "drop-last", "flatten", "repeatedly"):
        _fns[n] = common.core_fn(n)
    # lazy-cat is a macro: one helper compiled by the real compiler per lane
    import basilisp.lang.runtime as rt
    from basilisp.lang import compiler, reader
    ctx = compiler.CompilerContext("<verif-c06>")
    with rt.ns_bindings("basilisp.user") as ns:
        for form in reader.read_str("(basilisp.core/fn [a b] (basilisp.core/lazy-cat a b))"):
            _fns["lazy-cat*"] = compiler.compile_and_exec_form(form, ctx, ns)
    trace.register_lisp_ns(common.core_ns(), ["map", "filter", "iterate", "take", "drop", "take-while", "keep",
                                              "keep-indexed", "drop-while", "take-nth", "partition", "partition-all",
                                              "partition-by", "distinct", "dedupe", "interpose", "interleave", "cycle",
                                              "repeatedly", "flatten"], "core.lpy")


def preflight():
    src = os.path.join(B.REPO, "rust", "src", "basilisp_native", "seq.rs")
    try:
        if "_verif_set_contention_hook" in open(src).read():
            return None
    except OSError:
        pass
    return ("the guarded contention hook (_verif_set_contention_hook) is not in rust/src/basilisp_native/seq.rs: "
            "simulated lanes cannot run, only the real-thread probe was executed")


# ------------------------------------------------------------------ generation

OPS = ["first", "first", "rest", "rest", "next", "seq", "count", "nth", "iterall", "realized?"]
STAGES_OLD = ["map", "filter", "concat", "take", "drop", "take-while", "map2", "keep"]
STAGES_ALL = sorted(SR.STAGES)


def gen(rng, tier, index):
    n = rng.choice([2, 3, 4, 5, 6, 8])
    faults = rng.random() < 0.5
    source = rng.choice(["lazy", "lazy", "lazy", "lazy", "iterator", "iterate", "repeatedly", "iterable"])
    cells = []
    for i in range(n + 1):
        c = {"sleep": 0, "throw_first": False, "touch": None, "points": rng.choice([1, 2])}
        if faults and source == "lazy":
            if rng.random() < 0.2:
                c["sleep"] = 0.01
            if rng.random() < 0.15:
                c["throw_first"] = True
            r = rng.random()
            if r < 0.08:
                c["touch"] = "self"
            elif r < 0.2 and i + 1 <= n:
                c["touch"] = rng.randrange(i + 1, n + 1)
        cells.append(c)
    if faults and source in ("iterator", "iterate", "repeatedly", "iterable"):
        for c in cells:
            if rng.random() < 0.2:
                c["sleep"] = 0.01
        if source in ("iterator", "iterable") and rng.random() < 0.3:
            cells[rng.randrange(n)]["throw_first"] = True
    depth = rng.choice([0, 0, 1, 1, 1, 2, 2, 3])
    pipeline = []
    for d in range(depth):
        s_ = rng.choice(STAGES_OLD if rng.random() < 0.4 else STAGES_ALL)
        if s_ in SR.LAST_ONLY and d != depth - 1:
            s_ = rng.choice(STAGES_OLD)
        pipeline.append(s_)
    consumers = []
    for _ in range(rng.choice([2, 2, 3])):
        ops = []
        for _ in range(rng.choice([1, 2, 3, 4, 5])):
            o = rng.choice(OPS)
            if source in ("iterate",) and o in ("count", "iterall"):
                o = "first"           # the reference stream is a finite prefix of an infinite one
            ops.append([o, rng.randrange(0, 3)] if o == "nth" else [o])
        consumers.append(ops)
    # how each consumer reaches the shared head: directly, or through its OWN (lazy-seq head) wrapper -
    # then the shared cells are realized by the wrapper's walk over nested lazy seqs, not by seq()
    # or through (with-meta head m), which - as in Clojure - realizes the head cell and must SHARE every cell with the original
    via = [rng.choice(["direct", "direct", "wrap", "meta"]) for _ in consumers] if rng.random() < 0.45 else ["direct"] * len(consumers)
    return {"n": n, "source": source, "cells": cells, "pipeline": pipeline, "consumers": consumers,
            "faults": faults, "via": via}


def shrink(workload):
    cons = workload["consumers"]
    if len(cons) > 1:
        for i in range(len(cons)):
            w = copy.deepcopy(workload)
            del w["consumers"][i]
            if w.get("via"):
                del w["via"][i]
            yield w
    for i, t in enumerate(cons):
        if len(t) > 1:
            for j in range(len(t)):
                w = copy.deepcopy(workload)
                del w["consumers"][i][j]
                yield w
    if workload["pipeline"]:
        for i in range(len(workload["pipeline"])):
            w = copy.deepcopy(workload)
            del w["pipeline"][i]
            yield w
    if workload["n"] > 1:
        w = copy.deepcopy(workload)
        w["n"] -= 1
        del w["cells"][-2]
        for c in w["cells"]:
            if isinstance(c["touch"], int) and c["touch"] > w["n"]:
                c["touch"] = None
        for t in w["consumers"]:
            for o in t:
                if o[0] == "nth":
                    o[1] = 0
        yield w
    for i, c in enumerate(workload["cells"]):
        for key, val in (("sleep", 0), ("throw_first", False), ("touch", None), ("points", 1)):
            if c[key] != val:
                w = copy.deepcopy(workload)
                w["cells"][i][key] = val
                yield w
    if workload["source"] != "lazy":
        w = copy.deepcopy(workload)
        w["source"] = "lazy"
        yield w
    if any(v != "direct" for v in workload.get("via", [])):
        for i, v in enumerate(workload["via"]):
            if v != "direct":
                w = copy.deepcopy(workload)
                w["via"][i] = "direct"
                yield w


def nontrivial(rec):
    return rec["switches"] > 1 and (rec["probes"].get("cell_contended", 0) > 0 or bool(rec.get("faults")))


def describe():
    return {
        "rule": "workload = source of 2-8 instrumented cells (lazy-seq producers that yield, sleep, throw on first call, "
                "touch themselves or a later cell; or a single-use Python iterator; or iterate f; or repeatedly n f) under a pipeline of 0-3 "
                "stages from map/filter/remove/concat (suffix, prefix, lazy-cat)/take/drop/take-while/drop-while/keep/two-collection map/"
                "mapcat/interleave/map-indexed/keep-indexed/take-nth/interpose/distinct/dedupe/drop-last/cycle/flatten/"
                "partition (with and without step)/partition-all/partition-by, walked by 2-3 consumer threads with scripts of first/rest/next/seq/count/"
                "nth/iterate-all/realized?. Non-trivial = more than one hand-off AND (a cell's native mutex was contended "
                "OR an injected fault fired); distinct = distinct (switch signature, workload).",
        "real": ["rust LazySeq/Cons/Sequence/SeqIterator/to_seq (built from /repo/rust at this tree)", "basilisp.lang.seq",
                 "core.lpy lazy-seq lazy-cat map filter remove concat iterate repeatedly iterator-seq take drop take-while drop-while keep mapcat "
                 "interleave map-indexed keep-indexed take-nth interpose distinct dedupe drop-last cycle flatten partition "
                 "partition-all partition-by first rest next seq count nth",
                 "runtime.concat_from_seq", "parking_lot ReentrantMutex (try_lock path)", "real OS threads"],
        "stub": ["blocking slow path of the cell mutex (replaced by kernel.spin through the guarded hook)",
                 "OS scheduler", "clock"],
        "fault_kinds": ["producer_throw", "producer_sleep", "producer_touch_later", "producer_touch_self", "iterator_throw"],
        "sources": ["lazy-seq cells", "single-use iterator (iterator-seq)", "iterate", "repeatedly", "re-iterable non-seq Python object handed raw to the first stage"],
        "assumptions": ["the blocking native wait is covered only by the declared real-thread probe (c06_probe.py)",
                        "a producer never touches an earlier cell (that is a lock-order cycle in Clojure too)"],
        "hashseeds": [0],
    }


# ------------------------------------------------------------------ reference
# models/seqref.py holds one minimal-pull generator per stage; element values and the demand table both
# derive from it.

def reference(workload):
    n = workload["n"]
    src = [10 * i for i in range(n)]
    streams = [src]
    for s in workload["pipeline"]:
        streams.append(SR.ref(s, streams[-1]))
    return streams


def need_tables(workload, streams):
    return [SR.need_table(s, inp) for s, inp in zip(workload["pipeline"], streams[:-1])]


def source_need(workload, tables, j):
    """Largest source index that output index j of the whole pipeline may require."""
    for s, t in zip(reversed(workload["pipeline"]), reversed(tables)):
        touched = j >= 0
        j = SR.need(t, j)
        if touched and s in SR.CREATE_NEED:
            j = max(j, SR.CREATE_NEED[s])      # the stage is created when its first cell is asked for
    return min(j, workload["n"])


# ------------------------------------------------------------------ execution

def _plainv(x):
    """Elements of partition-like stages are sequences: compare them as lists (walking them is part of the op)."""
    if x is None or isinstance(x, (int, str)):
        return x
    if hasattr(x, "__iter__"):
        return [_plainv(e) for e in x]
    return x


def run(workload, k):
    lseq = _st["lseq"]
    n = workload["n"]
    cells_cfg = workload["cells"]
    streams = reference(workload)
    tables = need_tables(workload, streams)
    Rf = streams[-1]
    source = workload["source"]
    st = {"calls": [0] * (n + 1), "active": [0] * (n + 1), "ok_returns": [0] * (n + 1), "events": [],
          "faults": {}, "viol": None, "demand": -1, "fcalls": {}, "throws": []}

    def fault(name):
        st["faults"][name] = st["faults"].get(name, 0) + 1

    def viol(sig, detail):
        if st["viol"] is None:
            st["viol"] = (sig, detail)

    def on_produce(i):
        """Common instrumentation of 'the code producing source element i'."""
        cfg = cells_cfg[i]
        st["calls"][i] += 1
        nth = st["calls"][i]
        st["active"][i] += 1
        if st["active"][i] > 1:
            viol(f"{ID}/producer-concurrent", {"cell": i})
        if st["ok_returns"][i] > 0:
            viol(f"{ID}/producer-rerun-after-success", {"cell": i, "call": nth})
        need = source_need(workload, tables, st["demand"]) if st["demand"] >= 0 else -1
        st["events"].append(("pstart", k.ev("pstart", i, nth), i, k.cur.name if k.cur else "?", st["demand"], need))
        return cfg, nth

    cells = [None] * (n + 1)

    def make_cell(i):
        def producer():
            cfg, nth = on_produce(i)
            try:
                for _ in range(cfg["points"]):
                    P.point("producer")
                if cfg["sleep"]:
                    fault("producer_sleep")
                    P.sleep(cfg["sleep"])
                if cfg["touch"] == "self":
                    fault("producer_touch_self")
                    _fns["first"](cells[i])
                elif cfg["touch"] is not None:
                    fault("producer_touch_later")
                    st["touch_demand"] = max(st.get("touch_demand", -1), cfg["touch"])
                    _fns["first"](cells[cfg["touch"]])
                if cfg["throw_first"] and nth == 1:
                    fault("producer_throw")
                    st["throws"].append((k.ev("pthrow", i), k.cur.name, i))
                    raise Boom(f"cell {i}")
                st["ok_returns"][i] += 1
                k.ev("pend", i)
                if i == n:
                    return None
                return _fns["cons"](10 * i, cells[i + 1])
            finally:
                st["active"][i] -= 1
        return lseq.LazySeq(producer)

    if source == "lazy":
        for i in range(n + 1):
            cells[i] = make_cell(i)
        head = cells[0]
    elif source == "iterator":
        class It:
            def __init__(self):
                self.i = 0

            def __iter__(self):
                return self

            def __next__(self):
                i = self.i
                cfg, nth = on_produce(min(i, n))
                try:
                    P.point("iterator")
                    if cfg["sleep"]:
                        fault("producer_sleep")
                        P.sleep(cfg["sleep"])
                    if cfg["throw_first"] and nth == 1 and i < n:
                        fault("iterator_throw")
                        st["throws"].append((k.ev("pthrow", i), k.cur.name, i))
                        raise Boom(f"iterator element {i}")
                    self.i += 1
                    st["ok_returns"][min(i, n)] += 1
                    if i >= n:
                        raise StopIteration
                    return 10 * i
                finally:
                    st["active"][min(i, n)] -= 1
        head = _fns["iterator-seq"](It())
    elif source == "iterable":
        # a re-iterable Python object that is NOT a seq (every __iter__ opens a fresh cursor) handed raw to the
        # first stage: the stage must coerce it once, or its elements are produced once per coercion
        class Cur:
            def __init__(self):
                self.i = 0

            def __iter__(self):
                return self

            def __next__(self):
                i = self.i
                cfg, nth = on_produce(min(i, n))
                try:
                    P.point("iterable")
                    if cfg["sleep"]:
                        fault("producer_sleep")
                        P.sleep(cfg["sleep"])
                    if cfg["throw_first"] and nth == 1 and i < n:
                        fault("iterator_throw")
                        st["throws"].append((k.ev("pthrow", i), k.cur.name, i))
                        raise Boom(f"iterable element {i}")
                    self.i += 1
                    st["ok_returns"][min(i, n)] += 1
                    if i >= n:
                        raise StopIteration
                    return 10 * i
                finally:
                    st["active"][min(i, n)] -= 1

        class Reiterable:
            def __iter__(self):
                st["opens"] = st.get("opens", 0) + 1
                # one cursor, plus one more for every injected failure (a failed producer is re-run, and re-running
                # the cell that coerces the iterable opens it again): anything beyond is a second coercion
                if st["opens"] > 1 + len(st["throws"]):
                    viol(f"{ID}/iterable-coerced-again", {"opens": st["opens"], "injected_failures": len(st["throws"])})
                # at-most-once is per cursor
                for i_ in range(n + 1):
                    st["calls"][i_] = 0
                    st["ok_returns"][i_] = 0
                return Cur()
        head = Reiterable()
        pl = workload["pipeline"]
        # no stage at all, a stage that by definition walks its argument twice (drop-last = map over coll and
        # (drop n coll)), or flatten (which answers () for anything not sequential?): coerce first
        if not pl or pl[0] in ("drop-last", "flatten"):
            raw = head
            head = lseq.LazySeq(lambda: raw)          # coerced once, when first asked for
    elif source == "repeatedly":   # element i = the i-th call of f
        rp = {"i": 0}

        def rf():
            i = rp["i"]
            rp["i"] += 1
            cfg, nth = on_produce(min(i, n))
            try:
                P.point("repeatedly-f")
                if cfg["sleep"]:
                    fault("producer_sleep")
                    P.sleep(cfg["sleep"])
                st["ok_returns"][min(i, n)] += 1
                return 10 * i
            finally:
                st["active"][min(i, n)] -= 1
        head = _fns["repeatedly"](n, rf)
    else:   # iterate: element i+1 = f(element i); "producer i+1" is the call f(10*i)
        def f(x):
            i = x // 10 + 1
            if i <= n:
                cfg, nth = on_produce(i)
                try:
                    P.point("iterate-f")
                    if cfg["sleep"]:
                        fault("producer_sleep")
                        P.sleep(cfg["sleep"])
                    st["ok_returns"][i] += 1
                finally:
                    st["active"][i] -= 1
            return x + 10
        st["calls"][0] = 1
        st["ok_returns"][0] = 1
        head = _fns["take"](n, _fns["iterate"](f, 0))

    vector = _st["vec"].vector
    once_ok = {}
    for si, s in enumerate(workload["pipeline"]):
        # at-most-once per element is bookkept by VALUE: only meaningful while the stage's input values are unique
        inp_vals = [repr(v) for v in streams[si]]
        once_ok[si] = s not in SR.FN_NOT_ONCE and len(set(inp_vals)) == len(inp_vals)

    def mk_fn(si, tag, fn, result=lambda r: r):
        """Instrumented pipeline fn: counts calls per (stage, first argument) and is a preemption point."""
        def g(*args):
            key = (f"{tag}@{si}", args[-1] if tag in ("idx", "kidx") else args[0])
            if once_ok[si]:
                st["fcalls"][key] = st["fcalls"].get(key, 0) + 1
            P.point(tag)
            return result(fn(*args))
        return g

    def build(si, s, inp):
        F = _fns
        if s == "map":
            return F["map"](mk_fn(si, "map", SR.mapf), inp)
        if s == "filter":
            return F["filter"](mk_fn(si, "pred", SR.pred), inp)
        if s == "remove":
            return F["remove"](mk_fn(si, "pred", SR.pred), inp)
        if s == "concat":
            return F["concat"](inp, list(SR.SUFFIX))
        if s == "concat-pre":
            return F["concat"](vector(SR.PREFIX), inp)
        if s == "lazy-cat":
            return F["lazy-cat*"](inp, vector(SR.SUFFIX))
        if s == "take":
            return F["take"](SR.TAKE_K, inp)
        if s == "drop":
            return F["drop"](SR.DROP_K, inp)
        if s == "take-while":
            return F["take-while"](mk_fn(si, "tw", SR.tw), inp)
        if s == "drop-while":
            return F["drop-while"](mk_fn(si, "dw", SR.dw), inp)
        if s == "map2":
            return F["map"](mk_fn(si, "map2", lambda a, b: a + b), inp, vector(SR.MAP2_VEC))
        if s == "keep":
            return F["keep"](mk_fn(si, "keep", SR.keepf), inp)
        if s == "mapcat":
            return lseq.LazySeq(lambda: F["mapcat"](mk_fn(si, "cat", SR.catf, vector), inp))
        if s == "interleave":
            return F["interleave"](inp, vector(SR.ILV_VEC))
        if s == "map-indexed":
            return F["map-indexed"](mk_fn(si, "idx", SR.idxf), inp)
        if s == "keep-indexed":
            return F["keep-indexed"](mk_fn(si, "kidx", SR.kidxf), inp)
        if s == "take-nth":
            return F["take-nth"](SR.NTH, inp)
        if s == "interpose":
            return F["interpose"](SR.SEP, inp)
        if s == "distinct":
            return F["distinct"](F["map"](mk_fn(si, "q", SR.quant), inp))
        if s == "dedupe":
            return F["dedupe"](F["map"](mk_fn(si, "q", SR.quant), inp))
        if s == "drop-last":
            return F["drop-last"](SR.DROPLAST_N, inp)
        if s == "cycle":
            return F["take"](SR.CYCLE_TAKE, lseq.LazySeq(lambda: F["cycle"](inp)))
        if s == "partition":
            return F["partition"](SR.PART_N, inp)
        if s == "partition-step":
            return F["partition"](SR.PART_N, SR.PART_STEP, inp)
        if s == "partition-all":
            return F["partition-all"](SR.PART_N, inp)
        if s == "partition-by":
            return F["partition-by"](mk_fn(si, "pb", SR.pbf), inp)
        if s == "flatten":
            return F["flatten"](inp)
        raise ValueError(s)

    for si, s in enumerate(workload["pipeline"]):
        head = build(si, s, head)

    ops_log = []

    via = workload.get("via") or ["direct"] * len(workload["consumers"])
    heads = [lseq.LazySeq(lambda: head) if v == "wrap" else head for v in via]
    from basilisp.lang import map as lmap

    def consumer(ci, script):
        def body():
            cur = heads[ci]     # the real cursor
            c = 0               # reference cursor (index into Rf); len(Rf) = exhausted
            L = len(Rf)
            if via[ci] == "meta":
                st["demand"] = max(st["demand"], 0)      # attaching metadata realizes the head cell (LazySeq.with_meta)
                for _attempt in range(4):
                    try:
                        cur = _fns["with-meta"](cur, lmap.map({"consumer": ci}))
                        break
                    except Boom:
                        continue                         # an injected producer failure: the next attempt re-runs it
                    except P._k.SimAbort:
                        raise
                    except BaseException as e:  # noqa: BLE001
                        if k.aborting:
                            raise P._k.SimAbort()
                        viol(f"{ID}/with-meta-raised:{type(e).__name__}", {"consumer": ci, "exc": repr(e)[:300]})
                        return
            for oi, op in enumerate(script):
                kind = op[0]
                if kind in ("first", "seq", "rest", "realized?"):
                    dem = c
                elif kind == "next":
                    dem = c + 1
                elif kind == "nth":
                    dem = c + op[1]
                else:
                    dem = INF
                if kind != "realized?":
                    st["demand"] = max(st["demand"], dem)
                inv = k.ev("inv", ci, oi, kind)
                new_cur = cur
                try:
                    if kind == "first":
                        got = _plainv(_fns["first"](cur))
                    elif kind == "seq":
                        got = _fns["seq"](cur) is None
                    elif kind == "rest":
                        new_cur = _fns["rest"](cur)
                        got = "ok"
                    elif kind == "next":
                        new_cur = _fns["next"](cur)
                        got = new_cur is None
                    elif kind == "count":
                        got = _fns["count"](cur)
                    elif kind == "nth":
                        got = _plainv(_fns["nth"](cur, op[1], "NF"))
                    elif kind == "iterall":
                        got = [_plainv(e) for e in iter(cur)] if cur is not None else []
                    else:
                        got = "skip" if cur is None or not hasattr(cur, "is_realized") else bool(cur.is_realized)
                    res = ("ok", got)
                except P._k.SimAbort:
                    raise
                except BaseException as e:  # noqa: BLE001
                    if k.aborting:          # PanicException from the hook = the run is being unwound
                        raise P._k.SimAbort()
                    res = ("exc", type(e).__name__)
                ret = k.ev("ret", ci, oi, res if not isinstance(res[1], list) else ("ok", len(res[1])))
                # reference
                if kind == "first":
                    want = Rf[c] if c < L else None
                elif kind == "seq":
                    want = c >= L
                elif kind == "rest":
                    want = "ok"
                elif kind == "next":
                    want = c + 1 >= L
                elif kind == "count":
                    want = L - c if c < L else 0
                elif kind == "nth":
                    want = Rf[c + op[1]] if c + op[1] < L else "NF"
                elif kind == "iterall":
                    want = Rf[c:]
                else:
                    want = None
                ops_log.append({"task": f"C{ci}", "op": op, "cursor": c, "inv": inv, "ret": ret, "result": res,
                                "want": want})
                if res[0] == "ok":
                    cur = new_cur
                    if kind == "rest":
                        c = min(c + 1, L)
                    elif kind == "next":
                        c = min(c + 1, L)
                        if cur is None:
                            c = L
        return body

    for ci, script in enumerate(workload["consumers"]):
        k.spawn(consumer(ci, script), name=f"C{ci}")
    k.run()
    faults = st["faults"]
    kv = R.kernel_failure_verdict(ID, k)
    if kv is not None:
        kv["faults"] = faults
        if kv["signature"] == f"{ID}/deadlock":
            kv["detail"] = {"kernel": kv["detail"], "workload": workload}
        return kv
    for t in k.tasks:
        if t.exc is not None and t.exc != "abort":
            return R.verdict("harness", f"{ID}/harness", f"task {t.name} raised {t.exc!r}", faults=faults)
    det = {"ops": ops_log, "producer_calls": st["calls"], "producer_events": st["events"][:60],
           "reference": Rf, "throws": st["throws"]}
    if st["viol"]:
        return R.verdict("violation", st["viol"][0], dict(det, **st["viol"][1]), faults=faults)
    # values / exceptions per consumer
    throws_left = {}
    for seq_, task, cell in st["throws"]:
        throws_left.setdefault(task, []).append(seq_)
    for o in ops_log:
        res = o["result"]
        mine = [s for s in throws_left.get(o["task"], []) if o["inv"] < s < o["ret"]]
        if res[0] == "exc":
            if res[1] != "Boom" or not mine:
                return R.verdict("violation", f"{ID}/consumer-raised:{res[1]}", dict(det, op=o), faults=faults)
            continue
        if mine:
            return R.verdict("violation", f"{ID}/producer-exception-swallowed", dict(det, op=o), faults=faults)
        if o["op"][0] == "realized?":
            continue
        if res[1] != o["want"]:
            kind = "truncated" if (o["op"][0] in ("first", "nth") and res[1] in (None, "NF")) or \
                (o["op"][0] in ("count", "iterall") and (res[1] if isinstance(res[1], int) else len(res[1])) <
                 (o["want"] if isinstance(o["want"], int) else len(o["want"]))) or \
                (o["op"][0] in ("seq", "next") and res[1] is True) else "wrong-element"
            after = "after-producer-exception" if st["throws"] else "no-exception"
            return R.verdict("violation", f"{ID}/{kind}:{after}", dict(det, op=o), faults=faults)
    # at-most-once for successful producer returns and for pipeline fns
    for i, c in enumerate(st["ok_returns"]):
        if c > 1:
            return R.verdict("violation", f"{ID}/producer-ran-twice", dict(det, cell=i), faults=faults)
    for (fn, x), c in st["fcalls"].items():
        if c > 1 and not st["throws"]:
            return R.verdict("violation", f"{ID}/pipeline-fn-ran-twice:{fn.split('@')[0]}", dict(det, arg=x, calls=c), faults=faults)
    # demand: a producer may start only if what has been invoked so far needs it
    for ev in st["events"]:
        _, seq_, i, task, demand, need = ev
        allowed = max(need, st.get("touch_demand", -1)) if workload["source"] == "lazy" else need
        if i > allowed:
            return R.verdict("violation", f"{ID}/computed-beyond-demand:{workload['source']}",
                             dict(det, cell=i, demanded_output_index=demand, source_index_needed=need), faults=faults)
    return R.verdict("pass", faults=faults)


# ------------------------------------------------------------------ real-thread probe (driver side)

PROBE_VARIANTS = [("first", 2), ("seq", 2), ("map", 2), ("iter", 3), ("count", 2), ("realized", 3), ("wrap", 2)]


def _run_probe(variant, nthreads):
    cmd = [B.PY, os.path.join(B.VERIF, "checks", "c06_probe.py"), variant, str(nthreads)]
    try:
        r = subprocess.run(cmd, env=B.controlled_env(0), capture_output=True, text=True, timeout=180, cwd=B.VERIF)
    except subprocess.TimeoutExpired:
        return "hang", "parent timeout"
    if r.returncode == 0:
        return "ok", r.stdout.strip().splitlines()[-1] if r.stdout.strip() else ""
    if "PROBE" in r.stdout:
        return "wrong", r.stdout.strip().splitlines()[-1]
    return "hang", (r.stderr[-1500:])


def driver_extra(args, seed, tier):
    from concurrent.futures import ThreadPoolExecutor
    viol = []
    res = {}
    with ThreadPoolExecutor(max_workers=6) as ex:
        futs = {v: ex.submit(_run_probe, *v) for v in PROBE_VARIANTS}
        for v, f in futs.items():
            res[v] = f.result()
    for v, (status, info) in res.items():
        if status == "ok":
            continue
        status2, info2 = _run_probe(*v)          # a hang must reproduce before it is reported
        if status2 == status:
            sig = f"{ID}/native-deadlock:{v[0]}" if status == "hang" else f"{ID}/native-probe-wrong:{v[0]}"
            viol.append({"signature": sig, "detail": {"variant": v[0], "threads": v[1], "first": info[-600:],
                                                      "second": info2[-600:]},
                         "replay_doc": {"probe": {"variant": v[0], "threads": v[1]}}})
    cov = {"native_probe": {"engine": "real threads, no simulator (declared auxiliary)",
                            "variants": [f"{a}x{b}" for a, b in PROBE_VARIANTS],
                            "results": {f"{a}x{b}": res[(a, b)][0] for a, b in PROBE_VARIANTS}}}
    return cov, viol


def replay_custom(doc, args):
    v = doc["probe"]
    s1, i1 = _run_probe(v["variant"], v["threads"])
    s2, i2 = ("ok", "") if s1 == "ok" else _run_probe(v["variant"], v["threads"])
    if s1 != "ok" and s1 == s2:
        print(f"VIOLATION property={ID} replay={os.path.abspath(args.path)}")
        print(f"REPRODUCED signature={doc['violation']['signature']} status={s1} (twice) {i1[-400:]}")
        return 1
    print(f"NOT-REPRODUCED probe {v} -> {s1}/{s2} {i1[-200:]}")
    return 0
