"""C19 (framing clause only) - bencode / nREPL never mis-frame a stream.

Layer 1 (fault enumeration): every cut position of generated message streams through the
real decode-all, plus encode/decode identity vs a reference codec.
Layer 2 (netsim): the real nREPL `on-connect` loop per connection on simulated sockets:
seeded fragmentation, coalescing, EOF / reset mid-message, failing sendall.
The EDN / JSON clauses of C19 are pure and NOT decided here.
"""
import copy
import random

from sim import primitives as P
from sim import runner as R
from sim import netsim, trace
from models import bencode_ref as REF

ID = "C19"
ENGINE = "netsim"
LEVEL = "fault_enumeration"
TIERS = {"quick": {"runs": 3200, "timeout": 3600, "lane_timeout": 1800}, "thorough": {"runs": 80000, "timeout": 21600,
                                                                "lane_timeout": 10800}}
EST_STEPS = [100, 400, 1500]
MAX_STEPS = 200000
_st = {}
_fns = {}


def lane_setup():
    import importlib
    import logging
    from basilisp.lang import runtime as rt, symbol as sym, keyword as kw, map as lmap, vector as vec
    importlib.import_module("basilisp.contrib.bencode")
    importlib.import_module("basilisp.contrib.nrepl_server")
    bc = rt.Namespace.get(sym.symbol("basilisp.contrib.bencode"))
    ns = rt.Namespace.get(sym.symbol("basilisp.contrib.nrepl-server"))
    for n in ("encode", "decode", "decode-all"):
        _fns[n] = bc.find(sym.symbol(n)).value
    _fns["on-connect"] = ns.find(sym.symbol("on-connect")).value
    _st.update(kw=kw, lmap=lmap, vec=vec, rt=rt)
    _st["opts_nrepl"] = lmap.map({kw.keyword("keywordize-keys"): True,
                                  kw.keyword("string-fn"): lambda b: b.decode("utf-8")})
    _st["opts_kw"] = lmap.map({kw.keyword("keywordize-keys"): True})
    _st["empty"] = lmap.EMPTY
    logging.getLogger("basilisp.contrib.nrepl-server").setLevel(logging.CRITICAL + 10)
    logging.getLogger("basilisp.contrib.nrepl_server").setLevel(logging.CRITICAL + 10)
    trace.register_lisp_ns(ns, ["on-connect"], "nrepl_server.lpy")
    # expected eval results come from the real reader/compiler/printer directly (not through
    # nREPL): the oracle is about framing and attribution, not about how values print
    from basilisp.lang import compiler, reader
    from checks import common
    pr_str = common.core_fn("pr-str")
    ctx = compiler.CompilerContext("<verif-c19>")
    exp = []
    with rt.ns_bindings("basilisp.user") as uns:
        for form in reader.read_str("(ns verif.c19)"):
            compiler.compile_and_exec_form(form, ctx, uns)
    for code, _v, out in EVALS:
        try:
            with rt.ns_bindings("verif.c19") as ens:
                last = None
                import io
                import contextlib
                buf = io.StringIO()
                outv = common.core_ns().find(sym.symbol("*out*"))
                with rt.bindings({outv: buf}):
                    for form in reader.read_str(code):
                        last = compiler.compile_and_exec_form(form, ctx, ens)
                exp.append((code, pr_str(last), buf.getvalue()))
        except Exception:  # noqa: BLE001
            exp.append((code, None, ""))
    _st["evals"] = exp


# ------------------------------------------------------------------ value generation

TRICKY = b"0123456789:ilde-"


def _gen_bytes(rng):
    r = rng.random()
    n = rng.choice([0, 0, 1, 2, 3, 5, 9, 10, 11, 17])
    if r < 0.5:
        return bytes(rng.choice(TRICKY) for _ in range(n))
    if r < 0.8:
        return bytes(rng.randrange(256) for _ in range(n))
    return "".join(rng.choice("aé日€ z:") for _ in range(n)).encode("utf-8")


def _gen_value(rng, depth=0):
    r = rng.random()
    if depth >= 3 or r < 0.3:
        return rng.choice([0, 1, -1, 7, 10, -42, 123456789012345678901234567890, -(10 ** 30), rng.randrange(-999, 999)])
    if r < 0.6:
        b = _gen_bytes(rng)
        if rng.random() < 0.3:
            try:
                return b.decode("utf-8")
            except UnicodeDecodeError:
                return b
        return b
    if r < 0.8:
        return [_gen_value(rng, depth + 1) for _ in range(rng.choice([0, 1, 2, 3]))]
    d = {}
    for _ in range(rng.choice([0, 1, 2, 3])):
        k = "".join(rng.choice("abk1:ié-") for _ in range(rng.choice([1, 2, 4])))
        d[k] = _gen_value(rng, depth + 1)
    return d


def _to_json(v):
    if isinstance(v, bytes):
        return {"$b": v.hex()}
    if isinstance(v, list):
        return [_to_json(x) for x in v]
    if isinstance(v, dict):
        return {"$d": [[k, _to_json(x)] for k, x in v.items()]}
    return v


def _from_json(v):
    if isinstance(v, dict) and "$b" in v:
        return bytes.fromhex(v["$b"])
    if isinstance(v, dict) and "$d" in v:
        return {k: _from_json(x) for k, x in v["$d"]}
    if isinstance(v, list):
        return [_from_json(x) for x in v]
    return v


EVALS = [("(+ 1 2)", "3", ""), ('(str "i42e" "3:abc" "dé" "l")', '"i42e3:abcdél"', ""),
         ('(count "日本語")', "3", ""), ('(do (println "4:spam") 7)', "7", "4:spam\n"),
         ("(vec (range 3))", "[0 1 2]", ""), ('(keyword "d3:fooi1ee")', ":d3:fooi1ee", ""),
         ("(throw (ex-info \"boom 1:x\" {}))", None, ""), ("[1 \"lée\"", None, "")]


def gen(rng, tier, index):
    if rng.random() < 0.55:
        msgs = [_to_json(_gen_value(rng)) for _ in range(rng.choice([1, 2, 3, 4, 6]))]
        return {"kind": "cut", "messages": msgs, "opts": rng.choice(["none", "none", "kw", "nrepl"]),
                "ksplits": [sorted(rng.random() for _ in range(rng.choice([2, 3, 5]))) for _ in range(3)],
                "native": rng.random() < 0.3,
                # an encode that FAILS half-way (an unsupported value buried in a Python list/dict), after which
                # the repaired container objects must encode exactly as if nothing had happened
                "poison": rng.random() < 0.5}
    conns = []
    for c in range(rng.choice([1, 1, 2, 3])):
        reqs = []
        for i in range(rng.choice([1, 2, 3, 4, 6, 8])):
            r = rng.random()
            rid = f"c{c}-{i}"
            if r < 0.15:
                req = {"op": "clone", "id": rid}
            elif r < 0.25:
                req = {"op": "describe", "id": rid}
            elif r < 0.32:
                req = {"op": "close", "id": rid}
            elif r < 0.42:
                req = {"op": rng.choice(["frobnicate", "i1e", "3:abc"]), "id": rid}
            elif r < 0.49:
                # a well-framed request whose handler raises before it can answer (ns is an int):
                # the server logs it and must carry on with the NEXT request of the same batch
                req = {"op": "eval", "id": rid, "code": 0, "bad_ns": True}
            else:
                req = {"op": "eval", "id": rid, "code": rng.randrange(len(EVALS))}
            if rng.random() < 0.3:
                req["session"] = f"s{c}"
            reqs.append(req)
        fault = rng.random() < 0.45
        fail_sends = sorted(rng.sample(range(12), rng.choice([1, 2, 3]))) if fault and rng.random() < 0.5 else []
        raising = any(r_.get("bad_ns") for r_ in reqs)
        # failures only interact with framing when several requests come out of ONE buffer
        frag_modes = ["whole", "coalesce", "coalesce", "mixed"] if (fail_sends or raising) and rng.random() < 0.7 \
            else ["byte", "small", "mixed", "whole", "coalesce"]
        conns.append({"requests": reqs, "frag_seed": rng.getrandbits(32),
                      "frag": rng.choice(frag_modes),
                      "recv_bias": rng.choice(["mixed", "mixed", "byte", "all"]),
                      "bufsize": rng.choice([1, 7, 16, 64, 1024]),
                      "delays": rng.random() < 0.3,
                      "end": (rng.choice(["eof", "eof", "reset", "cut-eof", "cut-eof", "cut-reset"]) if fault else "eof"),
                      "cut_frac": rng.random(),
                      "fail_sends": fail_sends})
    return {"kind": "net", "conns": conns}


def gen_knobs(rng, workload):
    import sys as _s
    kn = R.default_knobs(rng, _s.modules[__name__], workload)
    return kn


def shrink(workload):
    if workload["kind"] == "cut":
        m = workload["messages"]
        if len(m) > 1:
            for i in range(len(m)):
                w = copy.deepcopy(workload)
                del w["messages"][i]
                yield w
        return
    c = workload["conns"]
    if len(c) > 1:
        for i in range(len(c)):
            w = copy.deepcopy(workload)
            del w["conns"][i]
            yield w
    for i, conn in enumerate(c):
        if len(conn["requests"]) > 1:
            for j in range(len(conn["requests"])):
                w = copy.deepcopy(workload)
                del w["conns"][i]["requests"][j]
                yield w
        if conn["fail_sends"]:
            w = copy.deepcopy(workload)
            w["conns"][i]["fail_sends"] = []
            yield w
        if conn["end"] != "eof":
            w = copy.deepcopy(workload)
            w["conns"][i]["end"] = "eof"
            yield w
        if conn["delays"]:
            w = copy.deepcopy(workload)
            w["conns"][i]["delays"] = False
            yield w


def nontrivial(rec):
    ex = rec.get("extra") or {}
    return ex.get("cut_points", 0) > 3 or (ex.get("fragments", 0) > 2 and rec["switches"] > 1)


def describe():
    return {
        "rule": "55% cut runs: a stream of 1-6 generated bencode messages (big/negative ints, byte strings over "
                "'0-9:ilde-' and arbitrary bytes, multi-byte UTF-8, nested lists/dicts) encoded by the real encoder, then "
                "EVERY split position fed to the real decode-all (+ the remainder re-fed with the suffix, + 3 random k-way "
                "splits through an accumulation loop); 45% net runs: 1-3 simulated clients x 1-8 nREPL requests through "
                "the real on-connect loop with seeded fragment sizes (1 byte .. whole, coalesced), recv sizes, buffer sizes "
                "1..1024, virtual delays, EOF/reset at a message boundary or mid-message, failing sendall. Non-trivial = "
                "more than 3 cut points, or more than 2 fragments with more than one hand-off; distinct = distinct "
                "(switch signature, workload).",
        "real": ["basilisp.contrib.bencode encode/decode/decode-all", "basilisp.contrib.nrepl-server on-connect, request/"
                 "response middleware, handlers (eval compiles and runs real code)"],
        "stub": ["socket (SimSocket: recv/sendall/getsockname/close)", "OS scheduler", "clock"],
        "fault_kinds": ["cut_mid_message_eof", "cut_mid_message_reset", "reset_at_boundary", "sendall_fails", "handler_raises",
                        "one_byte_fragments", "coalesced_messages", "virtual_delay"],
        "assumptions": ["TCP is a reliable ordered byte stream: loss/reordering are not injected",
                        "eval of each request is atomic with respect to other connections (runtime locks are not shimmed)",
                        "only the bencode/nREPL framing clause of C19 is decided; EDN and JSON round trips are pure"],
        "hashseeds": [0],
    }


# ------------------------------------------------------------------ layer 1

def _to_lisp(v, native):
    vec, lmap, kw = _st["vec"], _st["lmap"], _st["kw"]
    if isinstance(v, list):
        xs = [_to_lisp(x, native) for x in v]
        return xs if native else vec.vector(xs)
    if isinstance(v, dict):
        d = {}
        for i, (k, x) in enumerate(v.items()):
            kk = kw.keyword(k) if (i % 2 == 1 and ":" not in k and "/" not in k) else k
            d[kk] = _to_lisp(x, native)
        return d if native else lmap.map(d)
    return v


def _plain(v):
    """Decoded basilisp value -> python structure comparable with REF.coerce()."""
    vec, lmap, kw = _st["vec"], _st["lmap"], _st["kw"]
    if isinstance(v, (list, tuple)) or isinstance(v, vec.PersistentVector):
        return [_plain(x) for x in v]
    if isinstance(v, (dict, lmap.PersistentMap)):
        out = {}
        for k, x in v.items():
            if isinstance(k, kw.Keyword):
                k = (f"{k.ns}/{k.name}" if k.ns else k.name).encode("utf-8")
            elif isinstance(k, str):
                k = k.encode("utf-8")
            out[k] = _plain(x)
        return out
    if isinstance(v, str):
        return v.encode("utf-8")
    return v


def _poison(lv):
    """Bury a float in the deepest Python list/dict reachable from lv; returns the undo fn (None: no container)."""
    best = None
    stack = [(lv, 0)]
    while stack:
        x, d = stack.pop()
        if isinstance(x, (list, dict)):
            if best is None or d >= best[1]:
                best = (x, d)
            for y in (x.values() if isinstance(x, dict) else x):
                stack.append((y, d + 1))
    if best is None:
        return None
    c = best[0]
    if isinstance(c, list):
        c.append(1.5)
        return c.pop
    c["zz-poison"] = 1.5
    return lambda: c.pop("zz-poison")


def _run_cut(workload, k):
    msgs = [_from_json(m) for m in workload["messages"]]
    opts = {"none": _st["empty"], "kw": _st["opts_kw"], "nrepl": _st["opts_nrepl"]}[workload["opts"]]
    enc = _fns["encode"]
    dec_all = _fns["decode-all"]
    pieces = []
    for m in msgs:
        want = REF.encode(m)
        lv = _to_lisp(m, workload["native"])
        if workload.get("poison") and workload["native"]:
            undo = _poison(lv)
            if undo is not None:
                try:
                    enc(lv)
                except Exception:  # noqa: BLE001   (expected: 1.5 is outside the codec's domain)
                    pass
                undo()
        try:
            got = enc(lv)
        except Exception as e:  # noqa: BLE001
            return R.verdict("violation", f"{ID}/encode-raised:{type(e).__name__}", {"message": workload["messages"]})
        if bytes(got) != want:
            return R.verdict("violation", f"{ID}/encode-differs-from-reference",
                             {"got": bytes(got).hex(), "want": want.hex()})
        pieces.append(want)
    stream = b"".join(pieces)
    ends = []
    acc = 0
    for p in pieces:
        acc += len(p)
        ends.append(acc)
    nrepl = workload["opts"] == "nrepl"
    if nrepl:
        # :string-fn decodes utf-8: streams whose byte strings are not utf-8 make decode give up (documented
        # "[nil data]" on error) - not a framing matter; keep only decodable streams for this option
        try:
            for m in msgs:
                _check_utf8(m)
        except UnicodeDecodeError:
            opts = _st["empty"]
            nrepl = False
    wants = [REF.coerce(m) for m in msgs]
    ncut = 0

    def call(data):
        r = dec_all(data, opts)
        vals = [_plain(x) for x in r[0]]
        rest = r[1]
        return vals, (b"" if rest is None else bytes(rest))

    for c in range(len(stream) + 1):
        ncut += 1
        prefix = stream[:c]
        nfull = sum(1 for e in ends if e <= c)
        last = ends[nfull - 1] if nfull else 0
        try:
            vals, rest = call(prefix)
        except Exception as e:  # noqa: BLE001
            return R.verdict("violation", f"{ID}/decode-all-raised:{type(e).__name__}",
                             {"cut": c, "stream": stream.hex()})
        if vals != wants[:nfull]:
            sig = "partial-message-decoded-as-complete" if len(vals) > nfull else \
                ("complete-message-not-decoded" if len(vals) < nfull else "wrong-value")
            return R.verdict("violation", f"{ID}/{sig}", {"cut": c, "stream": stream.hex(), "decoded": repr(vals)[:400],
                                                          "expected": repr(wants[:nfull])[:400]})
        if rest != prefix[last:]:
            return R.verdict("violation", f"{ID}/remainder-altered", {"cut": c, "stream": stream.hex(),
                                                                      "rest": rest.hex(), "expected": prefix[last:].hex()})
        try:
            vals2, rest2 = call(rest + stream[c:])
        except Exception as e:  # noqa: BLE001
            return R.verdict("violation", f"{ID}/decode-all-raised:{type(e).__name__}", {"cut": c, "stream": stream.hex()})
        if vals2 != wants[nfull:] or rest2 != b"":
            return R.verdict("violation", f"{ID}/resume-after-cut-wrong", {"cut": c, "stream": stream.hex(),
                                                                           "decoded": repr(vals2)[:400]})
    # k-way splits through an accumulation loop (pending + data, as a socket reader does)
    for fr in workload["ksplits"]:
        cuts = sorted({int(f * len(stream)) for f in fr} | {len(stream)})
        pending = b""
        got = []
        prev = 0
        for c in cuts:
            data = pending + stream[prev:c]
            prev = c
            vals, pending = call(data)
            got += vals
            ncut += 1
        if got != wants or pending != b"":
            return R.verdict("violation", f"{ID}/accumulation-loop-wrong", {"cuts": cuts, "stream": stream.hex()})
    return R.verdict("pass", extra={"cut_points": ncut, "cut_streams": 1, "stream_bytes": len(stream)},
                     faults={"cut_mid_message_eof": ncut})


def _check_utf8(m):
    if isinstance(m, bytes):
        m.decode("utf-8")
    elif isinstance(m, list):
        for x in m:
            _check_utf8(x)
    elif isinstance(m, dict):
        for x in m.values():
            _check_utf8(x)


# ------------------------------------------------------------------ layer 2

class _Handler:
    def __init__(self, sock):
        self.request = sock


def _fragments(rng, data, mode):
    out = []
    i = 0
    n = len(data)
    while i < n:
        if mode == "byte":
            k = 1
        elif mode == "small":
            k = rng.randint(1, 4)
        elif mode == "whole":
            k = n
        elif mode == "coalesce":
            k = rng.choice([n, rng.randint(1, max(1, n))])
        else:
            r = rng.random()
            # bias cuts into length prefixes / right after ':' / before 'e'
            j = data.find(b":", i + 1)
            if r < 0.3 and j > 0:
                k = max(1, j - i + rng.choice([-1, 0, 1]))
            elif r < 0.5:
                k = 1
            else:
                k = rng.randint(1, max(1, min(40, n - i)))
        out.append(data[i:i + k])
        i += k
    return out


def _run_net(workload, k):
    lmap, kw = _st["lmap"], _st["kw"]
    faults = {}
    conns = []
    for ci, c in enumerate(workload["conns"]):
        reqs_bytes = []
        for r in c["requests"]:
            d = {"op": r["op"], "id": r["id"]}
            if "session" in r:
                d["session"] = r["session"]
            if r["op"] == "eval":
                d["code"] = EVALS[r["code"]][0]
            if r.get("bad_ns"):
                d["ns"] = 5
            reqs_bytes.append(REF.encode(d))
        stream = b"".join(reqs_bytes)
        send_upto = len(stream)
        if c["end"].startswith("cut") and len(stream) > 1:
            send_upto = max(1, int(c["cut_frac"] * len(stream)))
        server, client = netsim.socketpair(f"conn{ci}", c["frag_seed"], recv_bias=c["recv_bias"],
                                           fail_sends=c["fail_sends"], port=50000 + ci)
        ends = []
        acc = 0
        for b in reqs_bytes:
            acc += len(b)
            ends.append(acc)
        complete = sum(1 for e in ends if e <= send_upto)
        conns.append({"cfg": c, "server": server, "client": client, "stream": stream, "send_upto": send_upto,
                      "complete": complete, "rx": bytearray(), "server_exc": None})
    opts = lmap.map({kw.keyword("recv-buffer-size"): 1024})
    nfrag = [0]

    def server_task(conn):
        def body():
            o = lmap.map({kw.keyword("recv-buffer-size"): conn["cfg"]["bufsize"]})
            try:
                _fns["on-connect"](_Handler(conn["server"]), o)
            except P._k.SimAbort:
                raise
            except BaseException as e:  # noqa: BLE001
                conn["server_exc"] = e
            finally:
                # a handler that returns without closing leaves the client reading forever in a
                # real server too (socketserver closes the request after handle()); do the same
                if not conn["server"].closed:
                    conn["server"].close()
        return body

    def client_task(conn):
        def body():
            cfg = conn["cfg"]
            rng = random.Random(cfg["frag_seed"] ^ 0x9e3779b9)
            data = conn["stream"][:conn["send_upto"]]
            cl = conn["client"]
            for fr in _fragments(rng, data, cfg["frag"]):
                cl.send_fragment(fr)
                nfrag[0] += 1
                if cfg["delays"] and rng.random() < 0.5:
                    P.sleep(rng.choice([0.001, 0.01]))
                else:
                    P.point("client-frag")
                cl.drain(conn["rx"])
            if cfg["end"] in ("reset", "cut-reset"):
                cl.reset_peer()
            else:
                cl.shutdown_write()
            cl.read_until_closed(conn["rx"])
        return body

    for ci, conn in enumerate(conns):
        k.spawn(server_task(conn), name=f"S{ci}")
        k.spawn(client_task(conn), name=f"K{ci}")
    k.run()
    for conn in conns:
        e = conn["cfg"]["end"]
        if e == "cut-eof":
            faults["cut_mid_message_eof"] = faults.get("cut_mid_message_eof", 0) + 1
        elif e == "cut-reset":
            faults["cut_mid_message_reset"] = faults.get("cut_mid_message_reset", 0) + 1
        elif e == "reset":
            faults["reset_at_boundary"] = faults.get("reset_at_boundary", 0) + 1
        if conn["server"].dropped:
            faults["sendall_fails"] = faults.get("sendall_fails", 0) + len(conn["server"].dropped)
        if conn["cfg"]["frag"] == "byte":
            faults["one_byte_fragments"] = faults.get("one_byte_fragments", 0) + 1
        if conn["cfg"]["frag"] in ("coalesce", "whole") and len(conn["cfg"]["requests"]) > 1:
            faults["coalesced_messages"] = faults.get("coalesced_messages", 0) + 1
        if conn["cfg"]["delays"]:
            faults["virtual_delay"] = faults.get("virtual_delay", 0) + 1
        nb = sum(1 for r_ in conn["cfg"]["requests"][:conn["complete"]] if r_.get("bad_ns"))
        if nb:
            faults["handler_raises"] = faults.get("handler_raises", 0) + nb
    kv = R.kernel_failure_verdict(ID, k)
    if kv is not None:
        kv["faults"] = faults
        if kv["signature"] == f"{ID}/deadlock":
            kv["signature"] = f"{ID}/connection-never-terminates"
        return kv
    for t in k.tasks:
        if t.exc is not None and t.exc != "abort":
            return R.verdict("harness", f"{ID}/harness", f"task {t.name} raised {t.exc!r}", faults=faults)
    extra = {"fragments": nfrag[0], "net_runs": 1, "connections": len(conns)}
    for ci, conn in enumerate(conns):
        bad = _judge_conn(ci, conn)
        if bad:
            bad[1]["workload"] = workload
            return R.verdict("violation", bad[0], bad[1], faults=faults, extra=extra)
    return R.verdict("pass", faults=faults, extra=extra)


def _judge_conn(ci, conn):
    cfg = conn["cfg"]
    if conn["server_exc"] is not None:
        return f"{ID}/server-loop-raised:{type(conn['server_exc']).__name__}", {"conn": ci, "exc": repr(conn["server_exc"])}
    # everything the server wrote (delivered + deliberately dropped), in order, must frame cleanly
    wire = b"".join(p for _, p, _ok in conn["server"].sent_log)
    vals, rest = REF.decode_all(wire)
    if rest:
        return f"{ID}/response-stream-misframed", {"conn": ci, "rest": bytes(rest[:60]).hex()}
    got_delivered, rest2 = REF.decode_all(bytes(conn["rx"]))
    reset = cfg["end"] in ("reset", "cut-reset")
    if rest2 and not reset:
        return f"{ID}/client-received-partial-response", {"conn": ci}
    delivered_ok = [p for _, p, ok in conn["server"].sent_log if ok]
    if not reset and bytes(conn["rx"]) != b"".join(delivered_ok):
        return f"{ID}/bytes-lost-or-crossed-between-connections", {"conn": ci}
    reqs_all = cfg["requests"][:conn["complete"]]
    optional = {r["id"] for r in reqs_all if r.get("bad_ns")}     # handler raises: may stay unanswered
    reqs = [r for r in reqs_all if r["id"] not in optional]
    want_ids = [r["id"] for r in reqs]
    by_id = []
    for v in vals:
        if not isinstance(v, dict) or b"id" not in v:
            return f"{ID}/response-without-id", {"conn": ci, "response": repr(v)[:300]}
        rid = v[b"id"].decode("utf-8", "replace")
        if not rid.startswith(f"c{ci}-"):
            return f"{ID}/response-for-foreign-connection", {"conn": ci, "id": rid}
        if not by_id or by_id[-1][0] != rid:
            by_id.append((rid, []))
        by_id[-1][1].append(v)
    by_id = [(rid, resp) for rid, resp in by_id if rid not in optional]
    got_ids = [rid for rid, _ in by_id]
    if reset:
        # after a reset the loop may stop early: the answered ids must be a prefix of the complete ones
        if got_ids != want_ids[:len(got_ids)]:
            return f"{ID}/answered-ids-not-a-prefix", {"conn": ci, "got": got_ids, "want": want_ids}
    elif got_ids != want_ids:
        kind = "partial-request-answered" if len(got_ids) > len(want_ids) else "request-dropped-or-reordered"
        return f"{ID}/{kind}", {"conn": ci, "got": got_ids, "want": want_ids,
                                "sent_bytes": conn["send_upto"], "of": len(conn["stream"])}
    failed_ids = set()
    for _, payload, ok in conn["server"].sent_log:
        if not ok:
            pv, _r = REF.decode_all(payload)
            for v in pv:
                if isinstance(v, dict) and b"id" in v:
                    failed_ids.add(v[b"id"].decode("utf-8", "replace"))
    for (rid, resp), req in zip(by_id, reqs):
        if rid in failed_ids:
            continue        # a send for this request was made to fail: its remaining responses may be missing
        dones = [i for i, v in enumerate(resp) if b"done" in v.get(b"status", [])]
        if dones != [len(resp) - 1]:
            if reset and not dones:
                continue
            return f"{ID}/done-status-not-exactly-once-last", {"conn": ci, "id": rid, "responses": repr(resp)[:400]}
        if "session" in req and any(v.get(b"session") != req["session"].encode() for v in resp):
            return f"{ID}/session-not-echoed", {"conn": ci, "id": rid}
        op = req["op"]
        if op == "eval":
            code, value, out = _st["evals"][req["code"]]
            outs = b"".join(v.get(b"out", b"") for v in resp).decode("utf-8", "replace")
            vs = [v[b"value"].decode("utf-8", "replace") for v in resp if b"value" in v]
            if value is None:
                if vs or not any(b"err" in v for v in resp):
                    return f"{ID}/eval-error-not-reported", {"conn": ci, "id": rid, "responses": repr(resp)[:400]}
            elif vs != [value] or outs != out:
                return f"{ID}/eval-wrong-value", {"conn": ci, "id": rid, "code": code, "values": vs, "out": outs,
                                                  "want": value}
        elif op in ("clone", "describe", "close"):
            if op == "clone" and b"new-session" not in resp[-1]:
                return f"{ID}/clone-without-session", {"conn": ci, "id": rid}
            if op == "describe" and b"ops" not in resp[-1]:
                return f"{ID}/describe-without-ops", {"conn": ci, "id": rid}
        else:
            if resp[-1].get(b"status") != [b"error", b"unknown-op", b"done"]:
                return f"{ID}/unknown-op-status", {"conn": ci, "id": rid, "responses": repr(resp)[:300]}
    return None


def run(workload, k):
    if workload["kind"] == "cut":
        k.trace_on = False
        return _run_cut(workload, k)
    return _run_net(workload, k)
