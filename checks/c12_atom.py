"""C12 - atom updates are atomic under every schedule and always terminate.

Real: basilisp.lang.atom.Atom, RefBase validator/watch plumbing, and the Lisp CAS
loops swap!/reset!/swap-vals!/reset-vals!/compare-and-set! from core.lpy.
Stub: the atom's RLock (sim), the scheduler.
Oracles: linearizability against a sequential register (models/lin.py), validator
invisibility, watch transitions, solo termination within a step bound.
"""
import collections
import copy

from sim import primitives as P
from sim import runner as R
from sim import shims, trace
from models import lin

ID = "C12"
ENGINE = "threadsim"
LEVEL = "exploration"
TIERS = {"quick": {"runs": 40000, "timeout": 3600, "lane_timeout": 1800}, "thorough": {"runs": 1200000, "timeout": 21600,
                                                               "lane_timeout": 10800}}
EST_STEPS = [80, 200, 500]
P_OPCODE = 0.15
MAX_STEPS = 20000
SOLO_STEPS = 600

REJ = 1 << 30
MUT_SWAP = ("swap!", "swap-vals!", "pyswap")
MUT_RESET = ("reset!", "reset-vals!", "pyreset")

_fns = {}
Atom = None
vec = None


class Boom(Exception):
    pass


class EvilEq:
    """Never equal to anything, itself included."""
    def __init__(self, tag):
        self.tag = tag

    def __eq__(self, other):
        return False

    def __ne__(self, other):
        return True

    def __hash__(self):
        return 7

    def __repr__(self):
        return f"EvilEq({self.tag})"


def lane_setup():
    global Atom, vec
    from checks import common
    shims.install_lang(("atom", "reference"))
    import basilisp.lang.atom as atom_mod
    import basilisp.lang.reference as ref_mod
    import basilisp.lang.runtime as rt
    import basilisp.lang.vector as vector
    Atom = atom_mod.Atom
    vec = vector
    for n in ("swap!", "reset!", "swap-vals!", "reset-vals!", "compare-and-set!", "deref", "atom",
              "add-watch", "remove-watch", "set-validator!"):   # add-watch/remove-watch are used by dynamic watch ops
        _fns[n] = common.core_fn(n)
    trace.register(atom_mod.Atom, [".py"], opcode=True)
    trace.register(ref_mod.RefBase, [".py"], opcode=True)
    trace.register_lisp_ns(common.core_ns(), ["swap!", "reset!", "swap-vals!", "reset-vals!",
                                              "compare-and-set!", "deref"], "core.lpy")
    trace.register(rt._TrampolineArgs, [".py"])
    trace.register(rt._trampoline, [".py"])


# ------------------------------------------------------------------ generation

def gen(rng, tier, index):
    if rng.random() < 0.15:
        return _gen_solo(rng)
    ntasks = rng.choice([2, 2, 3])
    g = 0
    tasks = []
    nops_total = 0
    for t in range(ntasks):
        ops = []
        for _ in range(rng.choice([1, 2, 2, 3])):
            if nops_total >= 8:
                break
            ops.append(_gen_op(rng, g))
            g += 1
            nops_total += 1
        if ops:
            tasks.append(ops)
    faults = rng.random() < 0.5
    if not faults:
        for t in tasks:
            for o in t:
                o["fault"] = None
    if rng.random() < 0.3:
        # watches registered / removed WHILE other threads update: each dynamic key is added by one op
        # and possibly removed by a later op of the same task, so the final watch set is determined
        for d in range(rng.choice([1, 2])):
            ti = rng.randrange(len(tasks))
            pos = rng.randrange(len(tasks[ti]) + 1)
            tasks[ti].insert(pos, {"op": "add-watch", "w": f"d{d}", "fault": None})
            if rng.random() < 0.4:
                pos2 = rng.randrange(pos + 1, len(tasks[ti]) + 1)
                tasks[ti].insert(pos2, {"op": "remove-watch", "w": f"d{d}", "fault": None})
    wl = {"mode": "conc", "tasks": tasks, "watches": rng.choice([0, 0, 1, 2]),
          "validator": bool(faults or rng.random() < 0.3), "faults": faults}
    # a watch that itself updates the atom (once): notification re-enters the atom from inside an update
    wl["reactive"] = rng.choice(["swap!", "reset!", "pyswap"]) if wl["watches"] and rng.random() < 0.25 else None
    return wl


def _gen_op(rng, g):
    r = rng.random()
    if r < 0.45:
        kind = rng.choice(["swap!", "swap!", "swap-vals!", "pyswap"])
        return {"op": kind, "g": g, "extra": rng.choice([1, 1, 2, 3, 4]) if rng.random() < 0.4 else 0,   # number of extra args (every arity)
                "fault": rng.choice([None, None, None, "throw1", "throw2", "slow", "reject", "reject_eq", "noop"])}
    if r < 0.65:
        kind = rng.choice(["reset!", "reset-vals!", "pyreset"])
        return {"op": kind, "g": g, "fault": rng.choice([None, None, None, "reject"])}
    if r < 0.8:
        # expected value: initial 0 or the bit of some earlier op (plausible states)
        exp = 0 if g == 0 or rng.random() < 0.5 else (1 << rng.randrange(g))
        return {"op": "cas", "g": g, "expected": exp, "fault": None}
    return {"op": "deref", "g": g, "fault": None}


def _gen_solo(rng):
    ops = []
    for g in range(rng.choice([1, 2, 3])):
        kind = rng.choice(["reset!", "reset!", "reset-vals!", "pyreset", "swap!", "swap-vals!", "pyswap",
                           "cas"])
        ops.append({"op": kind, "g": g, "fault": None, "extra": False,
                    "newval": rng.choice(["int", "nan", "vecnan", "evil"])})
    return {"mode": "solo", "tasks": [ops], "init": rng.choice(["nan", "vecnan", "evil", "int", "nil"]),
            "watches": rng.choice([0, 1]), "validator": False, "faults": False}


def gen_knobs(rng, workload):
    import sys as _s
    kn = R.default_knobs(rng, _s.modules[__name__], workload)
    if workload["mode"] == "solo":
        kn.update(strategy="rw", p=0.05, opcode=False, max_steps=SOLO_STEPS)
    return kn


def shrink(workload):
    from checks import common
    for w in common.shrink_tasks(workload):
        yield w
    if workload.get("watches"):
        w = copy.deepcopy(workload)
        w["watches"] -= 1
        yield w
    for i, t in enumerate(workload["tasks"]):
        for j, o in enumerate(t):
            if o.get("fault"):
                w = copy.deepcopy(workload)
                w["tasks"][i][j]["fault"] = None
                yield w
            if o.get("extra"):
                w = copy.deepcopy(workload)
                w["tasks"][i][j]["extra"] = int(o["extra"]) - 1
                yield w
    if workload.get("reactive"):
        w = copy.deepcopy(workload)
        w["reactive"] = None
        yield w
    if workload.get("validator") and not any(o.get("fault") in ("reject", "reject_eq") for t in workload["tasks"] for o in t):
        w = copy.deepcopy(workload)
        w["validator"] = False
        yield w


def nontrivial(rec):
    return rec["switches"] > 1 and (rec["probes"].get("cas_retry", 0) > 0
                                    or rec["probes"].get("lock_contended", 0) > 0
                                    or bool(rec.get("faults")))


def describe():
    return {
        "rule": "workload = 2-3 tasks x 1-3 atom ops (swap!/swap-vals!/reset!/reset-vals!/compare-and-set!/"
                "deref via core.lpy, Atom.swap/reset via Python) with unique bit values, optional validator, "
                "0-2 watches, update fns that yield/sleep/throw; 15% solo runs over NaN-like values. A run is "
                "non-trivial when the baton changed hands more than once AND (a CAS retried OR the atom lock "
                "was contended OR an injected fault fired); distinct = distinct (switch signature, workload).",
        "real": ["basilisp.lang.atom.Atom", "basilisp.lang.reference.RefBase",
                 "core.lpy swap! reset! swap-vals! reset-vals! compare-and-set! deref",
                 "runtime._trampoline/_TrampolineArgs", "real OS threads (one runnable at a time)"],
        "stub": ["Atom._lock (sim RLock)", "OS scheduler (seeded baton kernel)", "clock (virtual)"],
        "fault_kinds": ["f_throw", "f_slow", "validator_reject", "validator_reject_equal_value", "noop_update", "watch_updates_atom", "preempt"],
        "assumptions": ["preemption at line granularity in atom.py/reference.py/core.lpy CAS loops plus "
                        "opcode granularity in 15% of runs; C-level steps are atomic under the GIL",
                        "sim RLock implements the documented RLock contract"],
        "hashseeds": [0],
    }


# ------------------------------------------------------------------ execution

def _mkval(kind, g):
    if kind == "int":
        return 1000 + g
    if kind == "nan":
        return float("nan")
    if kind == "vecnan":
        return vec.v(float("nan"))
    if kind == "evil":
        return EvilEq(g)
    if kind == "nil":
        return None
    raise ValueError(kind)


def _plain(x):
    """Oracle-side canonical form of a result."""
    if isinstance(x, bool) or x is None or isinstance(x, int):
        return x
    if isinstance(x, vec.PersistentVector):
        return [_plain(e) for e in x]
    return repr(x)


def run(workload, k):
    if workload["mode"] == "solo":
        return _run_solo(workload, k)
    st = {"ops": [], "watch": collections.defaultdict(list), "observed": [], "faults": {},
          "fcalls": collections.Counter(), "dwatch": {}, "final_watch_keys": None}

    def validator(v):
        P.point("validator")
        return isinstance(v, int) and not (v & REJ)

    a = Atom(0, None, validator if workload["validator"] else None)
    for w in range(workload["watches"]):
        def wf(key, ref, old, new, _w=w):
            P.point("watch")
            st["watch"][_w].append((old, new))
            if _w == 0 and workload.get("reactive") and not st.get("reacted"):
                st["reacted"] = True
                st["react"]()
        a.add_watch(f"w{w}", wf)

    def fault(name):
        st["faults"][name] = st["faults"].get(name, 0) + 1

    def make_f(op, opid):
        bit = 1 << op["g"]
        flt = op.get("fault")

        def f(cur, *extra):
            st["fcalls"][opid] += 1
            n = st["fcalls"][opid]
            if n > 1:
                k.probe("cas_retry")
            st["observed"].append(cur)
            P.point("f")
            if flt == "throw1" and n == 1:
                fault("f_throw")
                raise Boom("f")
            if flt == "throw2" and n == 2:
                fault("f_throw")
                raise Boom("f")
            if flt == "slow":
                fault("f_slow")
                P.sleep(0.01)
                P.point("f2")
            res = cur | bit
            for e in extra:
                res |= e
            if flt == "reject":
                fault("validator_reject")
                res |= REJ
            if flt == "noop":
                # an update that returns the very object it was given: still an operation, still one (s, s) notification
                fault("noop_update")
                return cur
            if flt == "reject_eq":
                # a value EQUAL to the one it replaces that the validator nevertheless rejects (it is not an int)
                fault("validator_reject_equal_value")
                return float(cur)
            return res
        return f

    def do_op(op, opid):
        kind = op["op"]
        bit = 1 << op.get("g", 0)
        if kind in ("swap!", "swap-vals!"):
            f = make_f(op, opid)
            nx = int(op.get("extra") or 0)
            if nx:
                # 1..4 extra arguments: swap!'s fixed and variadic arities / apply paths all carry them to f
                return _fns[kind](a, f, 1 << (op["g"] + 12), *([0] * (nx - 1)))
            return _fns[kind](a, f)
        if kind == "pyswap":
            nx = int(op.get("extra") or 0)
            if nx:
                return a.swap(make_f(op, opid), 1 << (op["g"] + 12), *([0] * (nx - 1)))
            return a.swap(make_f(op, opid))
        if kind in MUT_RESET:
            v = bit | (REJ if op.get("fault") == "reject" else 0)
            if op.get("fault") == "reject":
                fault("validator_reject")
            if kind == "pyreset":
                return a.reset(v)
            return _fns[kind](a, v)
        if kind == "cas":
            return _fns["compare-and-set!"](a, op["expected"], op["expected"] | bit)
        if kind == "deref":
            return _fns["deref"](a)
        if kind == "add-watch":
            key = op["w"]

            def dwf(k_, ref, old, new, _key=key):
                P.point("watch")
                st["dwatch"].setdefault(_key, []).append((old, new))
            _fns["add-watch"](a, key, dwf)
            return None
        if kind == "remove-watch":
            _fns["remove-watch"](a, op["w"])
            return None
        raise ValueError(kind)

    def record(opid, task, op):
        inv = k.ev("inv", opid, op["op"])
        try:
            r = ("ok", _plain(do_op(op, opid)))
        except P._k.SimAbort:
            raise
        except Exception as e:  # noqa: BLE001
            r = ("exc", type(e).__name__)
        ret = k.ev("ret", opid, r)
        st["ops"].append(lin.Op(opid, task, inv, ret, op["op"], op, r))

    def react():
        # runs inside a watch callback, i.e. inside some task's update: one more operation of that task whose
        # invoke-return window lies inside the outer operation's
        fault("watch_updates_atom")
        record("react", k.cur.name, {"op": workload["reactive"], "g": 24, "fault": None, "extra": False})
    st["react"] = react

    def task_fn(ti, ops):
        def body():
            for oi, op in enumerate(ops):
                record(f"{ti}.{oi}", f"T{ti}", op)
        return body

    for ti, ops in enumerate(workload["tasks"]):
        k.spawn(task_fn(ti, ops), name=f"T{ti}")
    k.run()
    kv = R.kernel_failure_verdict(ID, k)
    if kv is not None:
        kv["faults"] = st["faults"]
        return kv
    final = a.deref()
    st["final_watch_keys"] = sorted(str(x) for x in a._watches.keys())
    st["ops"].append(lin.Op("final", "oracle", k.seq + 1, k.seq + 2, "deref", {"op": "deref"},
                            ("ok", _plain(final))))
    return _judge(workload, st)


def _step(state, o):
    """Sequential register model: every (new_state, transition) explaining o.result."""
    kind = o.kind
    op = o.args
    res = o.result
    if kind in ("add-watch", "remove-watch"):
        return [(state, None)] if res == ("ok", None) else []
    if kind == "deref":
        if res == ("ok", state):
            return [(state, None)]
        return []
    bit = 1 << op["g"] if "g" in op else 0
    flt = op.get("fault")
    if kind in MUT_SWAP:
        if flt in ("reject", "reject_eq"):
            return [(state, None)] if res == ("exc", "ExceptionInfo") else []
        if flt == "throw1":
            return [(state, None)] if res == ("exc", "Boom") else []
        new = state | bit | ((1 << (op["g"] + 12)) if op.get("extra") else 0)
        if flt == "noop":
            new = state
        out = []
        if flt == "throw2" and res == ("exc", "Boom"):
            out.append((state, None))      # legal only when the first attempt lost a race
        want = [new, state] if kind == "swap-vals!" else new
        if res == ("ok", want):
            out.append((new, (state, new, o.id)))
        return out
    if kind in MUT_RESET:
        if flt == "reject":
            return [(state, None)] if res == ("exc", "ExceptionInfo") else []
        want = [bit, state] if kind == "reset-vals!" else bit
        if res == ("ok", want):
            return [(bit, (state, bit, o.id))]
        return []
    if kind == "cas":
        exp = op["expected"]
        if state == exp:
            return [(exp | bit, (state, exp | bit, o.id))] if res == ("ok", True) else []
        return [(state, None)] if res == ("ok", False) else []
    return []


def _judge(workload, st):
    ops = st["ops"]
    faults = st["faults"]
    # unexpected exception classes first: sharper signature than "not linearizable"
    for o in ops:
        if o.result[0] == "exc":
            flt = o.args.get("fault")
            allowed = {"reject": "ExceptionInfo", "reject_eq": "ExceptionInfo", "throw1": "Boom", "throw2": "Boom"}.get(flt)
            if o.result[1] != allowed:
                return R.verdict("violation", f"{ID}/op-raised:{o.kind}:{o.result[1]}",
                                 {"op": o.to_json(), "history": [x.to_json() for x in ops]}, faults=faults)
    # validator: no rejected value observable anywhere
    if workload["validator"]:
        seen = list(st["observed"])
        for o in ops:
            if o.result[0] == "ok":
                r = o.result[1]
                seen.extend(r if isinstance(r, list) else [r])
        for pairs in st["watch"].values():
            for old, new in pairs:
                seen.extend([old, new])
        for v in seen:
            if isinstance(v, float) or (isinstance(v, str) and v.replace(".", "", 1).isdigit() and "." in v):
                return R.verdict("violation", f"{ID}/validator-bypass",
                                 {"value": repr(v), "why": "only ints pass the validator", "history": [x.to_json() for x in ops]},
                                 faults=faults)
            if isinstance(v, int) and not isinstance(v, bool) and v & REJ:
                return R.verdict("violation", f"{ID}/validator-bypass",
                                 {"value": v, "history": [x.to_json() for x in ops]}, faults=faults)
    nw = workload["watches"]
    byid = {o.id: o for o in ops}
    dyn = {}
    for o in ops:
        if o.kind == "add-watch":
            dyn.setdefault(o.args["w"], {})["add"] = o
        elif o.kind == "remove-watch":
            dyn.setdefault(o.args["w"], {})["rem"] = o
    # the set of registered watches at the end is determined (lost add/remove = lost update)
    want_keys = sorted([f"w{i}" for i in range(nw)] + [w for w, d in dyn.items() if "add" in d and "rem" not in d])
    if st["final_watch_keys"] is not None and st["final_watch_keys"] != want_keys:
        return R.verdict("violation", f"{ID}/watch-registration-lost",
                         {"registered": st["final_watch_keys"], "expected": want_keys,
                          "history": [x.to_json() for x in ops]}, faults=faults)

    def final(state, notes):
        trans3 = [n for n in notes if n is not None]
        trans = collections.Counter((a_, b_) for a_, b_, _ in trans3)
        for w in range(nw):
            if collections.Counter(st["watch"][w]) != trans:
                return False
        for w, d in dyn.items():
            seen = collections.Counter(st["dwatch"].get(w, []))
            add, rem = d.get("add"), d.get("rem")
            # per (old, new) pair: how many transitions the watch MUST have seen (registered for the whole
            # operation) and how many it MAY have seen (registered at some point of the operation); pairs can
            # repeat now that an update may return the value it was given
            must = collections.Counter()
            may = collections.Counter()
            for a_, b_, oid in trans3:
                o = byid[oid]
                if add is not None and add.ret < o.inv and (rem is None or rem.inv > o.ret):
                    must[(a_, b_)] += 1
                if not (add is None or add.inv > o.ret or (rem is not None and rem.ret < o.inv)):
                    may[(a_, b_)] += 1
            for p_ in set(seen) | set(must):
                if not must[p_] <= seen[p_] <= may[p_]:
                    return False
        return True

    use_final = bool(nw or dyn)
    try:
        res = lin.linearize(ops, 0, _step, final if use_final else None)
    except lin.SearchBudget:
        return R.verdict("inconclusive", f"{ID}/lin-budget", "linearizability search budget", faults=faults)
    if res is None:
        # distinguish a pure watch mismatch from a register violation
        res2 = lin.linearize(ops, 0, _step, None) if use_final else None
        if res2 is not None:
            return R.verdict("violation", f"{ID}/watch-mismatch",
                             {"watch": {str(w): st["watch"][w] for w in range(nw)}, "dynamic_watch": st["dwatch"],
                              "linearization": res2[0], "transitions": [n for n in res2[1] if n],
                              "history": [x.to_json() for x in ops]}, faults=faults)
        return R.verdict("violation", f"{ID}/not-linearizable",
                         {"history": [x.to_json() for x in ops]}, faults=faults)
    return R.verdict("pass", faults=faults)


# ------------------------------------------------------------------ solo termination

def _run_solo(workload, k):
    st = {"cur": None, "log": [], "faults": {}}
    init = _mkval(workload["init"], 99)
    a = Atom(init)
    wcalls = []
    for w in range(workload["watches"]):
        a.add_watch(f"w{w}", lambda key, ref, old, new: wcalls.append((key,)))

    def body():
        for oi, op in enumerate(workload["tasks"][0]):
            kind = op["op"]
            nv = _mkval(op["newval"], op["g"])
            st["cur"] = (kind, op["newval"], workload["init"] if oi == 0 else workload["tasks"][0][oi - 1]["newval"])
            if kind in ("reset!", "reset-vals!"):
                r = _fns[kind](a, nv)
                inst = nv
            elif kind == "pyreset":
                r = a.reset(nv)
                inst = nv
            elif kind in ("swap!", "swap-vals!"):
                r = _fns[kind](a, lambda cur: nv)
                inst = nv
            elif kind == "pyswap":
                r = a.swap(lambda cur: nv)
                inst = nv
            else:
                cur = a.deref()
                r = _fns["compare-and-set!"](a, cur, nv)
                inst = None
            st["log"].append((kind, op["newval"]))
            if inst is not None:
                got = a.deref()
                if got is not inst:
                    k.fail("VIOLATION", (f"{ID}/solo-wrong-value:{kind}",
                                         {"installed": repr(inst), "deref": repr(got), "ops": st["log"]}))
                first = r[0] if kind in ("reset-vals!", "swap-vals!") else r
                if first is not inst:
                    k.fail("VIOLATION", (f"{ID}/solo-wrong-return:{kind}",
                                         {"installed": repr(inst), "returned": repr(r), "ops": st["log"]}))
            st["cur"] = None

    k.spawn(body, name="T0")
    k.run()
    f = k.failure
    if f is not None and f.kind == "STEPLIMIT":
        kind, newval, held = st["cur"] or ("?", "?", "?")
        return R.verdict("violation", f"{ID}/solo-nontermination:{kind}:held={held}",
                         {"op": kind, "atom_holds": held, "new": newval, "steps": k.steps,
                          "completed": st["log"], "workload": workload})
    kv = R.kernel_failure_verdict(ID, k, solo=True)
    if kv is not None:
        return kv
    t = k.tasks[0]
    if t.exc is not None and t.exc != "abort":
        return R.verdict("violation", f"{ID}/solo-op-raised:{type(t.exc).__name__}",
                         {"exc": repr(t.exc), "completed": st["log"], "current": st["cur"]})
    return R.verdict("pass", extra={"solo_runs": 1, "solo_ops": len(st["log"])})
