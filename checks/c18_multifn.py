"""C18 - multimethod dispatch depends only on current methods, preferences, hierarchy.

Real: basilisp.lang.multifn.MultiFunction (method table, prefers, dispatch cache and its
invalidation), core.lpy isa?/derive/underive/parents/ancestors/descendants, swap! on the
per-run hierarchy atom.  Stub: the multimethod's Lock, the hierarchy atom's RLock, the
scheduler.  Oracles: O1 from-scratch instance agrees (after every op sequentially, after
quiescence concurrently), O2 independent reference on undisputed cases, O3 window
consistency of concurrent calls, O4 hierarchy relations vs closure model.
"""
import abc
import copy
import itertools

from sim import primitives as P
from sim import runner as R
from sim import shims, trace

ID = "C18"
ENGINE = "threadsim"
LEVEL = "exploration"
TIERS = {"quick": {"runs": 15000, "timeout": 3600, "lane_timeout": 1800}, "thorough": {"runs": 480000, "timeout": 21600,
                                                                "lane_timeout": 10800}}
HASHSEEDS = [0, 1]
HASHSEEDS_THOROUGH = [0, 1, 2, 3, 4, 5, 6, 7]
HASH_DEPENDENT = True
EST_STEPS = [300, 1000, 3000]
P_OPCODE = 0.1
MAX_STEPS = 80000

KWS = ["a", "b", "c", "d", "e"]
CLS = ["K0", "K1", "K2"]          # K1 is a subclass of K0
SET_A = ["a", "b", "c", "K0", "K1"]
SET_B = ["d", "e", "K2"]
DEFAULT = "default"
# dispatch values that are VECTORS of tags (isa? is element-wise on vectors of equal length); every use builds a fresh,
# equal-but-not-identical vector, as a dispatch fn like (fn [a b] [(type a) (:kind b)]) would
VECS = ["a|b", "b|c", "K1|a", "d|e", "c|c"]
_st = {}
_fns = {}


class Boom(Exception):
    pass


def lane_setup():
    from checks import common
    shims.install_lang(("atom", "reference", "multifn"))
    import basilisp.lang.multifn as mf_mod
    import basilisp.lang.atom as atom_mod
    from basilisp.lang import keyword as kw, symbol as sym, runtime as rt
    from basilisp.lang import vector as vec
    _st.update(MF=mf_mod.MultiFunction, Atom=atom_mod.Atom, kw=kw, sym=sym, rt=rt, vec=vec)
    for n in ("isa?", "derive", "underive", "parents", "ancestors", "descendants", "make-hierarchy",
              "swap!", "remove-method", "remove-all-methods", "prefer-method", "get-method", "methods",
              "prefers", "deref"):
        _fns[n] = common.core_fn(n)
    trace.register(mf_mod.MultiFunction, [".py"], opcode=True)
    trace.register(atom_mod.Atom, [".py"])
    trace.register(rt.Var, [".py"])          # only frames whose Var carries a sim lock are traced (global-hierarchy mode)
    trace.register_lisp_ns(common.core_ns(), ["isa?", "derive", "underive", "ancestors", "swap!", "alter-var-root"],
                           "core.lpy")


# ------------------------------------------------------------------ generation

def _gen_op(rng, universe, allow_all, allow_default):
    kws = [u for u in universe if u in KWS]
    r = rng.random()
    if r < 0.30:
        ks = universe + ([DEFAULT] if allow_default else [])
        return ["add", rng.choice(ks)]
    if r < 0.40:
        ks = universe + ([DEFAULT] if allow_default else [])
        return ["remove", rng.choice(ks)]
    if r < 0.43 and allow_all:
        return ["remove_all"]
    if r < 0.58 and len(universe) > 1:
        x, y = rng.sample(universe, 2)
        return ["prefer", x, y]
    tags = [u for u in universe if "|" not in u]
    if r < 0.85 and kws:
        return ["derive", rng.choice(tags), rng.choice(kws)]
    if kws:
        return ["underive", rng.choice(tags), rng.choice(kws)]
    return ["add", rng.choice(universe)]


def _gen_mut_ops(rng, universe, allow_all, allow_default, n):
    ops = []
    for _ in range(n):
        ops.append(_gen_op(rng, universe, allow_all, allow_default))
        if rng.random() < 0.35:
            ops.append(["call", rng.choice(universe)])
    return ops


def gen(rng, tier, index):
    hs = rng.sample(range(64), 3)
    base = {"clshash": {"K0": hs[0], "K1": hs[1], "K2": hs[2]}, "throw_dispatch": None,
            # K2 registered as a *virtual* subclass of K0 (abc.register): isa? holds through issubclass only,
            # K0 is in neither (supers K2) nor (ancestors K2)
            "virtual": rng.random() < 0.4}
    universe = KWS + CLS
    if rng.random() < 0.3:
        vectors = rng.random() < 0.3
        if vectors:
            universe = universe + VECS
            base = dict(base, vectors=True)
        n = rng.choice([3, 5, 7, 7, 12, 25, 40]) if tier == "thorough" else rng.choice([3, 5, 7, 7, 12, 20])
        ops = [_gen_op(rng, universe, True, True) for _ in range(n)]
        if rng.random() < 0.3:
            # scenario bias: a chain v -> y -> x with methods on x and y, an answer for v cached,
            # then a table change that must invalidate it (preference, new/removed method, edge)
            v, y, x = rng.sample(KWS + CLS, 3)
            if x in CLS or y in CLS:
                v, y, x = (rng.sample(CLS, 1) + rng.sample(KWS, 2)) if rng.random() < 0.5 else rng.sample(KWS, 3)
            chain = [["derive", v, y], ["derive", y, x], ["add", x], ["add", y]]
            rng.shuffle(chain)
            change = rng.choice([["prefer", x, y], ["remove", y], ["underive", v, y], ["add", v], ["underive", y, x],
                                 ["prefer", y, x], ["add", DEFAULT]])
            k0 = rng.randrange(0, max(1, len(ops) // 2))
            ops = ops[:k0] + chain + [change] + ops[k0:]
        elif rng.random() < 0.4:
            # scenario bias "deep hierarchy" (after seeded change C18-e): a chain of depth 3-4, optionally with a
            # second path (diamond), built in shuffled order, then edges removed / re-added near the TOP, so that
            # ancestors/descendants of tags two or more levels below have to follow
            depth = rng.choice([3, 4, 4])
            tags = rng.sample(KWS, depth + 1) if rng.random() < 0.7 else rng.sample(CLS, 1) + rng.sample(KWS, depth)
            build = [["derive", tags[i], tags[i + 1]] for i in range(depth)]
            if rng.random() < 0.4:
                build.append(["derive", tags[0], tags[rng.randrange(2, depth + 1)]])     # a second path
            rng.shuffle(build)
            build += [["add", t] for t in rng.sample(tags, rng.choice([1, 2]))]
            edits = []
            for _ in range(rng.choice([1, 2, 3])):
                i = rng.randrange(1, depth)                 # an edge that has at least one level below it
                edits.append(["underive", tags[i], tags[i + 1]])
                if rng.random() < 0.4:
                    edits.append(["derive", tags[i], tags[i + 1]])
            k0 = rng.randrange(0, max(1, len(ops) // 2))
            ops = ops[:k0] + build + edits + ops[k0:]
        # 25%: the multimethod is created WITHOUT :hierarchy and the 2-arity derive/underive change the
        # process-wide hierarchy (restored after the run); 25%: a custom default dispatch value
        return dict(base, mode="seq", ops=ops, use_global=rng.random() < 0.25, custom_default=rng.random() < 0.25)
    if rng.random() < 0.35:
        # scenario bias: one edge x->y toggled while callers keep asking for x (and y has a method),
        # so cached answers for x become wrong exactly while lookups are in flight
        x, y = rng.sample(KWS + CLS[:1], 2)
        if y in CLS:
            x, y = y, x
        pre = [["add", y]] + ([["add", DEFAULT]] if rng.random() < 0.5 else []) + \
              ([["derive", x, y]] if rng.random() < 0.5 else []) + \
              ([["add", x]] if rng.random() < 0.2 else [])
        mops = []
        state = any(o[0] == "derive" for o in pre)
        for _ in range(rng.choice([1, 2, 3])):
            mops.append(["underive" if state else "derive", x, y])
            state = not state
            if rng.random() < 0.5:
                mops.append(["call", x])
            if rng.random() < 0.15:
                mops.append(_gen_op(rng, [x, y], False, True))
        callers = [[["call", rng.choice([x, x, x, y])] for _ in range(rng.choice([1, 2, 3]))]
                   for _ in range(rng.choice([1, 2, 2]))]
        wl = dict(base, mode="conc", pre=pre, mutators=[mops], callers=callers)
        return wl
    two = rng.random() < 0.3
    if not two and rng.random() < 0.7:
        # focus: a small sub-universe so that mutations, cached answers and calls collide
        kws = rng.sample(KWS, rng.choice([2, 3]))
        universe = kws + rng.sample(CLS, rng.choice([0, 1]))
    muts = []
    if two:
        muts.append(_gen_mut_ops(rng, SET_A, False, True, rng.choice([2, 3, 4])))
        muts.append(_gen_mut_ops(rng, SET_B, False, False, rng.choice([1, 2, 3])))
    else:
        muts.append(_gen_mut_ops(rng, universe, True, True, rng.choice([2, 3, 4, 5])))
    if two:
        # the pre-state must decompose by mutator so each mutator's versions are self-contained
        pre = [_gen_op(rng, SET_A, False, True) if rng.random() < 0.6 else _gen_op(rng, SET_B, False, False)
               for _ in range(rng.choice([0, 2, 4]))]
    else:
        pre = [_gen_op(rng, universe, False, True) for _ in range(rng.choice([0, 2, 4]))]
    callers = [[["call", rng.choice(universe + ["zz"])] for _ in range(rng.choice([1, 2, 3]))]
               for _ in range(rng.choice([1, 2, 2]))]
    wl = dict(base, mode="conc", pre=pre, mutators=muts, callers=callers)
    if rng.random() < 0.15:
        wl["throw_dispatch"] = rng.choice([1, 2, 3])
    # a fifth of these runs work on the PROCESS-WIDE hierarchy (2-arity derive/underive from the mutators, a
    # multimethod without :hierarchy); its Var gets a sim lock for the run and is restored afterwards
    wl["use_global"] = rng.random() < 0.2
    return wl


def shrink(workload):
    if workload["mode"] == "seq":
        ops = workload["ops"]
        for i in range(len(ops)):
            w = copy.deepcopy(workload)
            del w["ops"][i]
            if w["ops"]:
                yield w
        return
    for key in ("pre", "mutators", "callers"):
        seq = workload[key]
        if key == "pre":
            for i in range(len(seq)):
                w = copy.deepcopy(workload)
                del w[key][i]
                yield w
        else:
            if len(seq) > 1:
                for i in range(len(seq)):
                    w = copy.deepcopy(workload)
                    del w[key][i]
                    yield w
            for i, t in enumerate(seq):
                if len(t) > 1:
                    for j in range(len(t)):
                        w = copy.deepcopy(workload)
                        del w[key][i][j]
                        yield w
    if workload.get("throw_dispatch"):
        w = copy.deepcopy(workload)
        w["throw_dispatch"] = None
        yield w


def nontrivial(rec):
    ex = rec.get("extra") or {}
    if ex.get("mode_seq"):
        return ex.get("seq_ops", 0) >= 3
    return rec["switches"] > 2 and (rec["probes"].get("lock_contended", 0) > 0 or ex.get("calls_during_mutation", 0) > 0)


def describe():
    return {
        "rule": "universe = 5 namespaced keywords + 3 classes (K1 subclasses K0; in 40% of runs K2 is an abc-registered virtual subclass of K0; seeded class hashes), identity dispatch, "
                "each method returns its own tag. 30% sequential histories (3-20 ops quick, up to 40 thorough) of "
                "add/remove/remove-all/prefer/derive/underive with every dispatch value called after every op; 70% "
                "concurrent: 1-2 mutators (second restricted to a disjoint key/tag set) + 1-2 callers, optional throwing "
                "dispatch fn. Non-trivial: sequential with >=3 ops, or concurrent with >2 hand-offs and (lock contention or a "
                "call overlapping a mutation); distinct = distinct (switch signature, workload).",
        "real": ["basilisp.lang.multifn.MultiFunction", "core.lpy isa? derive underive parents ancestors descendants",
                 "core.lpy swap! on the hierarchy atom", "core.lpy remove-method remove-all-methods prefer-method",
                 "basilisp.lang.atom.Atom"],
        "stub": ["MultiFunction._lock (sim Lock)", "hierarchy Atom._lock (sim RLock)", "OS scheduler"],
        "fault_kinds": ["dispatch_throw", "derive_rejected", "prefer_rejected"],
        "assumptions": ["method-table iteration order follows keyword hashes: PYTHONHASHSEED is part of the run identity "
                        "(2 seeds quick, 8 thorough)",
                        "preference chains resolvable only by a non-transitive reading of prefer-method are accepted either way"],
        "hashseeds": HASHSEEDS,
    }


# ------------------------------------------------------------------ model

class HModel:
    """Closure model of (methods, prefers, hierarchy edges) with basilisp's documented semantics."""

    def __init__(self):
        self.methods = {}       # dispatch value -> version of its body (every add installs a NEW body: a body reached
        self.addn = {}          # through isa? or as default must be the one currently in the table)
        self.prefers = {}
        self.edges = set()

    def copy(self):
        m = HModel()
        m.methods = dict(self.methods)
        m.addn = dict(self.addn)
        m.prefers = {k: set(v) for k, v in self.prefers.items()}
        m.edges = set(self.edges)
        return m

    def closure(self, tag, edges=None):
        edges = self.edges if edges is None else edges
        out = set()
        stack = [tag]
        while stack:
            t = stack.pop()
            for a, b in edges:
                if a == t and b not in out:
                    out.add(b)
                    stack.append(b)
        return out

    def apply(self, op):
        """Returns None or the name of the exception the op must raise."""
        t = op[0]
        if t == "add":
            self.addn[op[1]] = self.addn.get(op[1], 0) + 1
            self.methods[op[1]] = self.addn[op[1]]
        elif t == "remove":
            self.methods.pop(op[1], None)
        elif t == "remove_all":
            self.methods.clear()
        elif t == "prefer":
            x, y = op[1], op[2]
            if x in self.prefers.get(y, ()):
                return "RuntimeException"
            self.prefers.setdefault(x, set()).add(y)
        elif t == "derive":
            tag, parent = op[1], op[2]
            if tag == parent or tag in self.closure(parent):
                return "ExceptionInfo"
            self.edges.add((tag, parent))
        elif t == "underive":
            self.edges.discard((op[1], op[2]))
        return None

    @staticmethod
    def merged(models):
        m = HModel()
        for x in models:
            m.methods.update(x.methods)
            m.addn.update(x.addn)
            for k, v in x.prefers.items():
                m.prefers.setdefault(k, set()).update(v)
            m.edges |= x.edges
        return m


_VIRTUAL = set()        # (sub, super) pairs registered with abc for the workload being run


def _is_cls(t):
    return t in CLS


def _supers(t):
    return {"K1": {"K0", "object"}, "K0": {"object"}, "K2": {"object"}}[t]


def _bases(t):
    return {"K1": {"K0"}, "K0": {"object"}, "K2": {"object"}}[t]


def m_isa(m, x, y):
    if x == y:
        return True
    if "|" in x or "|" in y:
        xs, ys = x.split("|"), y.split("|")
        return "|" in x and "|" in y and len(xs) == len(ys) and all(m_isa(m, a, b) for a, b in zip(xs, ys))
    anc = m.closure(x)
    if _is_cls(x):
        anc = anc | _supers(x)
    if y in anc:
        return True
    return _is_cls(x) and _is_cls(y) and (y in _supers(x) or (x, y) in _VIRTUAL)


def reference(m, v):
    """Allowed outcomes of calling the multimethod with dispatch value v under model m:
    a set of outcome tuples, or None when the case is disputed (anything goes)."""
    if v == DEFAULT:
        # the default key used as a dispatch value: its own method is an exact match
        return {("M", DEFAULT, m.methods[DEFAULT])} if DEFAULT in m.methods else {("EXC", "NotImplementedError")}
    cands = [k for k in m.methods if k != DEFAULT and m_isa(m, v, k)]

    def dom(x, y):
        return x != y and (y in m.prefers.get(x, ()) or m_isa(m, x, y))
    if not cands:
        return {("M", DEFAULT, m.methods[DEFAULT])} if DEFAULT in m.methods else {("EXC", "NotImplementedError")}
    undominated = [c for c in cands if not any(dom(d, c) for d in cands if d != c)]
    if len(undominated) >= 2:
        return {("EXC", "RuntimeException")}
    for c in cands:
        if all(dom(c, d) and not dom(d, c) for d in cands if d != c):
            return {("M", c, m.methods[c])}
    return None


# ------------------------------------------------------------------ execution

class World:
    def __init__(self, workload, k):
        kw, sym = _st["kw"], _st["sym"]
        self.k = k
        ch = workload["clshash"]

        class SeededMeta(abc.ABCMeta if workload.get("virtual") else type):
            def __hash__(cls):
                return cls._h
        K0 = SeededMeta("K0", (), {"_h": ch["K0"]})
        K1 = SeededMeta("K1", (K0,), {"_h": ch["K1"]})
        K2 = SeededMeta("K2", (), {"_h": ch["K2"]})
        _VIRTUAL.clear()
        if workload.get("virtual"):
            K0.register(K2)
            _VIRTUAL.add(("K2", "K0"))
        self.obj = {n: kw.keyword(n, ns="v") for n in KWS}
        self.obj.update(K0=K0, K1=K1, K2=K2, zz=kw.keyword("zz", ns="v"))
        self.obj[DEFAULT] = kw.keyword("fallback", ns="v") if workload.get("custom_default") else kw.keyword("default")
        self.rev = {id(v): n for n, v in self.obj.items()}
        self.rev[id(object)] = "object"
        self.vectors = bool(workload.get("vectors"))
        self.use_global = bool(workload.get("use_global"))
        if self.use_global:
            # the process-wide hierarchy Var; only used by single-task (sequential) runs, restored by close()
            self.hier = _st["rt"].Var.find_safe(_st["sym"].symbol("global-hierarchy", ns="basilisp.core"))
            self.saved_global = self.hier.deref()
            self.saved_lock = self.hier._lock
            if workload["mode"] == "conc":
                self.hier._lock = P.SimRLock()
        else:
            self.hier = _st["Atom"](_fns["make-hierarchy"]())
        self.ncalls = 0
        self.addn = {}
        self.throw_at = workload.get("throw_dispatch")
        self.faults = {}
        self.mf = self.new_mf()

    def val(self, name):
        if "|" in name:
            return _st["vec"].v(*[self.obj[p] for p in name.split("|")])
        return self.obj[name]

    def dispatch(self, v):
        self.ncalls += 1
        P.point("dispatch")
        if self.throw_at and self.ncalls == self.throw_at:
            self.faults["dispatch_throw"] = self.faults.get("dispatch_throw", 0) + 1
            raise Boom("dispatch")
        return v

    def new_mf(self, dispatch=None):
        return _st["MF"](_st["sym"].symbol("verif-mf"), dispatch or self.dispatch, self.obj[DEFAULT],
                         None if self.use_global else self.hier)

    def close(self):
        if self.use_global:
            self.hier._lock = self.saved_lock
            self.hier.bind_root(self.saved_global)

    def method_for(self, key):
        # every (re-)definition is a new body with its own version, as a re-evaluated defmethod would be
        self.addn[key] = n = self.addn.get(key, 0) + 1
        return lambda v, _k=key, _n=n: ("M", _k, _n)

    def apply(self, op, mf=None):
        """Apply a mutation to the real objects; returns None or the exception class name."""
        mf = mf or self.mf
        o = self.obj
        try:
            t = op[0]
            if t == "add":
                mf.add_method(self.val(op[1]), self.method_for(op[1]))
            elif t == "remove":
                _fns["remove-method"](mf, self.val(op[1]))
            elif t == "remove_all":
                _fns["remove-all-methods"](mf)
            elif t == "prefer":
                _fns["prefer-method"](mf, self.val(op[1]), self.val(op[2]))
            elif t == "derive" and self.use_global:
                _fns["derive"](o[op[1]], o[op[2]])
            elif t == "underive" and self.use_global:
                _fns["underive"](o[op[1]], o[op[2]])
            elif t == "derive":
                _fns["swap!"](self.hier, _fns["derive"], o[op[1]], o[op[2]])
            elif t == "underive":
                _fns["swap!"](self.hier, _fns["underive"], o[op[1]], o[op[2]])
            return None
        except P._k.SimAbort:
            raise
        except Exception as e:  # noqa: BLE001
            return type(e).__name__

    def call(self, v, mf=None):
        mf = mf or self.mf
        try:
            return mf(self.val(v))
        except P._k.SimAbort:
            raise
        except Exception as e:  # noqa: BLE001
            return ("EXC", type(e).__name__)

    def fresh_from(self, reverse=False):
        """A new MultiFunction built through the public API from the current tables."""
        fresh = self.new_mf(dispatch=lambda v: v)
        items = list(self.mf.methods.items())
        if reverse:
            items.reverse()
        for key, meth in items:
            fresh.add_method(key, meth)
        for x, ys in self.mf.prefers.items():
            for y in ys:
                fresh.prefer_method(x, y)
        return fresh

    def name(self, x):
        return self.rev.get(id(x), repr(x))

    def names(self, coll):
        if coll is None:
            return set()
        return {self.name(x) for x in coll}


def _check_hierarchy(w, m):
    """O4: parents/ancestors/descendants/isa? against the closure model."""
    # the explicit-hierarchy arities, or (process-wide hierarchy) the arities that take no hierarchy
    hargs = () if w.use_global else (w.hier.deref(),)
    tags = KWS + CLS
    for t in tags:
        want_p = {b for a, b in m.edges if a == t} | (_bases(t) if _is_cls(t) else set())
        got_p = w.names(_fns["parents"](*hargs, w.obj[t]))
        if got_p != want_p:
            return ("parents", t, sorted(want_p), sorted(got_p))
        want_a = m.closure(t) | (_supers(t) if _is_cls(t) else set())
        got_a = w.names(_fns["ancestors"](*hargs, w.obj[t]))
        if got_a != want_a:
            return ("ancestors", t, sorted(want_a), sorted(got_a))
        if not _is_cls(t):
            want_d = {x for x in tags if t in m.closure(x)}
            got_d = w.names(_fns["descendants"](*hargs, w.obj[t]))
            if got_d != want_d:
                return ("descendants", t, sorted(want_d), sorted(got_d))
        for u in tags:
            if bool(_fns["isa?"](*hargs, w.obj[t], w.obj[u])) != m_isa(m, t, u):
                return ("isa?", (t, u), m_isa(m, t, u), not m_isa(m, t, u))
    return None


def _check_dispatch(w, m, where):
    """O1 (+O1b order independence) and O2 for every dispatch value."""
    fresh = w.fresh_from()
    fresh_rev = w.fresh_from(reverse=True)
    for v in KWS + CLS + ["zz", DEFAULT] + (VECS if w.vectors else []):
        got = w.call(v)
        f1 = w.call(v, fresh)
        if got != f1:
            return (f"{ID}/stale-or-history-dependent-dispatch:{where}",
                    {"value": v, "long_lived": got, "from_scratch": f1})
        f2 = w.call(v, fresh_rev)
        if f1 != f2:
            ref = reference(m, v)
            if ref is not None:
                return (f"{ID}/insertion-order-dependent-dispatch",
                        {"value": v, "from_scratch": f1, "reverse_insertion": f2})
        ref = reference(m, v)
        if ref is not None and got not in ref:
            return (f"{ID}/wrong-method:{where}", {"value": v, "got": got, "allowed": sorted(ref)})
    return None


def run(workload, k):
    if workload["mode"] == "seq":
        return _run_seq(workload, k)
    return _run_conc(workload, k)


def _opfault(faults, op, exc):
    if exc and op[0] == "derive":
        faults["derive_rejected"] = faults.get("derive_rejected", 0) + 1
    if exc and op[0] == "prefer":
        faults["prefer_rejected"] = faults.get("prefer_rejected", 0) + 1


def _run_seq(workload, k):
    k.trace_on = False      # one task: nothing to interleave, keep only the cooperative points
    w = World(workload, k)
    m = HModel()
    out = {}

    def body():
        for i, op in enumerate(workload["ops"]):
            want = m.apply(op)
            got = w.apply(op)
            _opfault(w.faults, op, got)
            if want != got:
                out["v"] = (f"{ID}/op-outcome:{op[0]}", {"op": op, "step": i, "want_exc": want, "got_exc": got})
                return
            if op[0] in ("derive", "underive"):
                bad = _check_hierarchy(w, m)
                if bad:
                    out["v"] = (f"{ID}/hierarchy-inconsistent:{bad[0]}",
                                {"step": i, "op": op, "tag": bad[1], "want": bad[2], "got": bad[3],
                                 "edges": sorted(m.edges)})
                    return
            bad = _check_dispatch(w, m, "sequential")
            if bad:
                bad[1].update(step=i, op=op, methods=sorted(m.methods), edges=sorted(m.edges),
                              prefers={a: sorted(b) for a, b in m.prefers.items()})
                out["v"] = bad
                return

    k.spawn(body, name="T0")
    try:
        k.run()
    finally:
        w.close()
    kv = R.kernel_failure_verdict(ID, k)
    if kv is not None:
        kv["faults"] = w.faults
        return kv
    t = k.tasks[0]
    if t.exc is not None and t.exc != "abort":
        return R.verdict("harness", f"{ID}/harness", "task raised " + repr(t.exc), faults=w.faults)
    if "v" in out:
        return R.verdict("violation", out["v"][0], out["v"][1], faults=w.faults)
    return R.verdict("pass", faults=w.faults, extra={"mode_seq": 1, "seq_ops": len(workload["ops"])})


def _run_conc(workload, k):
    w = World(workload, k)
    nm = len(workload["mutators"])
    # one model per mutator; with two mutators the key/tag sets are disjoint, so the state
    # is the union of the two models and each pre-op belongs to exactly one of them
    bases = [HModel() for _ in range(nm)]
    pre_bad = []
    for op in workload["pre"]:          # applied before the tasks start (driver thread)
        owner = 0 if nm == 1 or op[1] in SET_A or op[1] == DEFAULT else 1
        want = bases[owner].apply(op)
        got = w.apply(op)
        if want != got:
            pre_bad.append((op, want, got))
    versions = [[(0, 0, bases[i].copy())] for i in range(nm)]     # (inv, ret, model after the op)
    calls = []
    out = {}

    def mut(i, ops):
        def body():
            cur = versions[i][0][2].copy()
            for op in ops:
                if op[0] == "call":
                    inv = k.ev("c-inv", f"M{i}", op[1])
                    got = w.call(op[1])
                    ret = k.ev("c-ret", f"M{i}", op[1], got if got[0] == "EXC" else ("M", got[1]))
                    calls.append((inv, ret, op[1], got))
                    continue
                inv = k.ev("m-inv", i, op[0])
                want = cur.apply(op)
                got = w.apply(op)
                ret = k.ev("m-ret", i, op[0])
                _opfault(w.faults, op, got)
                if want != got and nm == 1:
                    out["v"] = (f"{ID}/op-outcome:{op[0]}", {"op": op, "want_exc": want, "got_exc": got})
                    return
                if want != got:
                    # with two mutators an op outcome may depend on the other's state only for prefer/derive
                    # inside its own disjoint set - so it must still match
                    out["v"] = (f"{ID}/op-outcome:{op[0]}", {"op": op, "want_exc": want, "got_exc": got, "mutator": i})
                    return
                versions[i].append((inv, ret, cur.copy()))
        return body

    def caller(i, ops):
        def body():
            for op in ops:
                inv = k.ev("c-inv", i, op[1])
                got = w.call(op[1])
                ret = k.ev("c-ret", i, op[1], got if got[0] == "EXC" else ("M", got[1]))
                calls.append((inv, ret, op[1], got))
        return body

    for i, ops in enumerate(workload["mutators"]):
        k.spawn(mut(i, ops), name=f"M{i}")
    for i, ops in enumerate(workload["callers"]):
        k.spawn(caller(i, ops), name=f"C{i}")
    try:
        k.run()
        return _judge_conc(workload, k, w, nm, versions, calls, out, pre_bad)
    finally:
        w.close()


def _judge_conc(workload, k, w, nm, versions, calls, out, pre_bad):
    kv = R.kernel_failure_verdict(ID, k)
    if kv is not None:
        kv["faults"] = w.faults
        if kv["signature"] == f"{ID}/deadlock":
            kv["signature"] = f"{ID}/deadlock-lock-wedged"
        return kv
    for t in k.tasks:
        if t.exc is not None and t.exc != "abort":
            return R.verdict("harness", f"{ID}/harness", f"task {t.name} raised {t.exc!r}", faults=w.faults)
    if pre_bad:
        return R.verdict("violation", f"{ID}/op-outcome:{pre_bad[0][0][0]}", {"pre": pre_bad}, faults=w.faults)
    if "v" in out:
        return R.verdict("violation", out["v"][0], out["v"][1], faults=w.faults)

    def full(models):
        return HModel.merged(models)

    # O3: every concurrent call is explained by some version combination inside its window
    overlapped = 0
    for inv, ret, v, got in calls:
        if got == ("EXC", "Boom"):
            continue
        cands = []
        for i in range(nm):
            vs = versions[i]
            c = []
            for j, (vinv, vret, model) in enumerate(vs):
                nxt_ret = vs[j + 1][1] if j + 1 < len(vs) else 1 << 60
                if vinv <= ret and nxt_ret >= inv:
                    c.append(model)
            cands.append(c)
        if any(len(c) > 1 for c in cands):
            overlapped += 1
        ok = False
        allowed_all = set()
        for combo in itertools.product(*cands):
            ref = reference(full(list(combo)), v)
            if ref is None or got in ref:
                ok = True
                break
            allowed_all |= ref
        if not ok:
            return R.verdict("violation", f"{ID}/call-not-explained-by-any-version",
                             {"value": v, "got": got, "allowed": sorted(allowed_all), "window": [inv, ret],
                              "workload": workload}, faults=w.faults)
    # quiescence: O1/O2/O4 on the final state
    final = full([vs[-1][2] for vs in versions])
    bad = _check_hierarchy(w, final)
    if bad:
        return R.verdict("violation", f"{ID}/hierarchy-inconsistent:{bad[0]}",
                         {"tag": bad[1], "want": bad[2], "got": bad[3], "edges": sorted(final.edges)}, faults=w.faults)
    w.throw_at = None
    bad = _check_dispatch(w, final, "after-quiescence")
    if bad:
        bad[1].update(methods=sorted(final.methods), edges=sorted(final.edges),
                      prefers={a: sorted(b) for a, b in final.prefers.items()},
                      calls=[[c[0], c[1], c[2], list(c[3])] for c in calls])
        return R.verdict("violation", bad[0], bad[1], faults=w.faults)
    return R.verdict("pass", faults=w.faults, extra={"mode_conc": 1, "calls_during_mutation": overlapped,
                                                     "conc_calls": len(calls)})
