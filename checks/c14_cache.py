"""C14 - cached namespace bytecode is transparent and never used when invalid.

Engine: procsim.  "Nodes" are successive real interpreter incarnations (forked from a
booted basilisp of the chosen PYTHONHASHSEED) that share only a scratch directory.  A
seeded controller decides source edits, file mtimes (simulated wall clock that may jump),
per-incarnation hash seed, crash points inside the cache write and damage to the cache file
between incarnations.  Plus exhaustive cut points of every cache file at the decode layer.
"""
import copy
import hashlib
import json
import marshal
import os
import random
import shutil
import subprocess
import time

from sim import bootstrap as B
from sim import runner as R
from models import ns_gen

ID = "C14"
ENGINE = "procsim"
LEVEL = "fault_enumeration"
DETERMINISTIC_RUN = True
# Process creation (fork, page faults) serialises machine-wide in this sandbox (8 parallel forks of a booted
# interpreter take 200 ms each against 14 ms alone), so procsim throughput is ~0.6 runs/s however many lanes run.
TIERS = {"quick": {"runs": 96, "timeout": 5400, "lane_timeout": 3000, "procs": 8},
         "thorough": {"runs": 1600, "timeout": 14400, "lane_timeout": 7200, "procs": 8}}
# 0 = hash randomisation switched off (sys.flags.hash_randomization == 0): a configuration of its own,
# code may (wrongly) treat hashes as stable across processes there (seeded change C14-b)
SERVER_SEEDS = [0, 11, 22, 33]
MODULE = "vgen"
NSNAME = "vgen"
_st = {"servers": {}, "n": 0, "exc_classes": {}, "cut_points": 0, "cut_files": 0}


# ------------------------------------------------------------------ servers

def lane_setup():
    import atexit
    for hs in SERVER_SEEDS:
        _st["servers"][hs] = _start_server(hs)
    atexit.register(_stop_servers)
    from basilisp import importer
    _st["importer"] = importer
    _st["exhaustive_limit"] = 150000 if os.environ.get("VERIF_TIER_NOW") == "thorough" else 20000


def _start_server(hs):
    p = subprocess.Popen([B.PY, os.path.join(B.VERIF, "checks", "c14_child.py"), "serve"],
                         env=B.controlled_env(hs), stdin=subprocess.PIPE, stdout=subprocess.PIPE,
                         stderr=subprocess.DEVNULL, text=True, cwd=B.VERIF)
    line = p.stdout.readline()
    if '"ready"' not in line:
        B.harness_exit(f"HARNESS: C14 incarnation server for hash seed {hs} did not start: {line!r}")
    return p


def _stop_servers():
    for p in _st["servers"].values():
        try:
            p.stdin.write('{"quit": true}\n')
            p.stdin.flush()
            p.wait(5)
        except Exception:  # noqa: BLE001
            p.kill()


def lane_finish():
    _stop_servers()
    return {"exception_classes_at_decode_layer": _st["exc_classes"], "cut_points": _st["cut_points"],
            "cut_files": _st["cut_files"]}


def _incarnate(hs, req):
    p = _st["servers"][hs]
    if p.poll() is not None:
        p = _st["servers"][hs] = _start_server(hs)
    try:
        os.unlink(req["out"])
    except OSError:
        pass
    p.stdin.write(json.dumps(req) + "\n")
    p.stdin.flush()
    line = p.stdout.readline()
    if not line:
        raise RuntimeError("incarnation server died")
    status = json.loads(line).get("status")
    try:
        with open(req["out"]) as f:
            rep = json.load(f)
    except (OSError, ValueError):
        rep = {"ok": False, "error": f"no report (wait status {status})", "path": [], "effects": [], "harness": True}
    rep["wait_status"] = status
    return rep


# ------------------------------------------------------------------ generation

DAMAGES = ["truncate", "truncate", "truncate", "empty", "magic", "mtime+1", "mtime-1", "size+1", "size-1",
           "mtime+1", "mtime-1", "size+1", "size-1", "delete", "header-only", "truncate-in-header"]


def gen(rng, tier, index):
    desc = ns_gen.generate(rng, NSNAME, rng.choice([1, 3, 6, 10, 15, 22, 30]))
    hist = [["write", 0, 0, 0], ["load", rng.randrange(len(SERVER_SEEDS)), None]]
    version = 0
    pad = 0
    for _ in range(rng.choice([2, 3, 4, 5, 6])):
        r = rng.random()
        if r < 0.30:
            version += 1
            # near-miss staleness matters most: same size with the mtime one second off (either way),
            # or same mtime with the size one byte off
            kind = rng.choice(["both", "mtime-only", "mtime-only", "mtime-back-only", "size-only", "clock-back"])
            if kind in ("both", "size-only", "clock-back"):
                pad = (pad + rng.choice([1, 1, 2, 3])) % 9
            dt = {"both": rng.choice([1, 5, 3600]), "mtime-only": rng.choice([1, 1, 2, 100]), "size-only": 0,
                  "mtime-back-only": -rng.choice([1, 1, 2]), "clock-back": -rng.choice([1, 7, 86400])}[kind]
            hist.append(["write", version, pad, dt])
        elif r < 0.55:
            hist.append(["damage", rng.choice(DAMAGES), rng.random()])
        elif r < 0.65:
            hist.append(["load", rng.randrange(len(SERVER_SEEDS)), [rng.choice(["exit", "exit", "oserror"]), rng.random()]])
        elif r < 0.74:
            # a source edit lands DURING the load (after read+compile, before the cache write); it only happens if this
            # load compiles from source, so it usually follows an edit or a damage
            version += 1
            pad = (pad + rng.choice([1, 1, 2, 3])) % 9
            hist.append(["load", rng.randrange(len(SERVER_SEEDS)), ["edit", version, pad, rng.choice([1, 1, 2, 5, 3600])]])
        elif r < 0.80:
            # load, then (same process) the source is replaced and the namespace RELOADED: the cache is rewritten by a
            # compiler that runs in a process already holding the previous version of the namespace
            version += 1
            pad = (pad + rng.choice([1, 1, 2, 3])) % 9
            hist.append(["load", rng.randrange(len(SERVER_SEEDS)), ["reload", version, pad, rng.choice([1, 2, 5, 3600])]])
        else:
            hist.append(["load", rng.randrange(len(SERVER_SEEDS)), None])
    hist.append(["load", rng.randrange(len(SERVER_SEEDS)), None])
    if rng.random() < 0.5:
        hist.append(["load", rng.randrange(len(SERVER_SEEDS)), None])
    return {"desc": desc, "history": hist}


def shrink(workload):
    h = workload["history"]
    for i in range(2, len(h)):
        w = copy.deepcopy(workload)
        del w["history"][i]
        if w["history"][-1][0] == "load" and w["history"][-1][2] is None:
            yield w
    u = workload["desc"]["units"]
    if len(u) > 1:
        for i in range(len(u)):
            w = copy.deepcopy(workload)
            del w["desc"]["units"][i]
            yield w


def nontrivial(rec):
    ex = rec.get("extra") or {}
    return ex.get("invalid_cache_loads", 0) > 0 or ex.get("cross_seed_cached_loads", 0) > 0


def describe():
    return {
        "rule": "history = write source v0; load; then 2-6 ops from {edit source (mtime and/or size change, clock jumping "
                "back), damage cache (truncate anywhere, empty, header only, magic, mtime+-1, size+-1, delete), load with a "
                "crash (power loss or OSError after k bytes of the cache write), clean load}, each load in a real interpreter "
                "incarnation under one of 4 PYTHONHASHSEED values (0 = randomisation off, 11, 22, 33); generated namespaces of 1-30 units (literals of every "
                "kind, defn/closures/multi-arity, defmacro, defrecord/deftype/defprotocol, defmulti, dynamic/private Vars, "
                "required alias, keyword identity probes). Every cache file produced is additionally cut at EVERY proper "
                "prefix length through the real header/unmarshal function. Non-trivial = at least one load met an invalid "
                "cache or a cache written under another hash seed; distinct = distinct workload.",
        "real": ["basilisp.importer (find_spec, exec_module, _exec_cached_module, _exec_module, set_data, path_stats)",
                 "reader, analyzer, generator, compile_bytecode, marshal", "runtime/keyword intern table of a real process "
                 "per PYTHONHASHSEED", "the file system of the scratch directory"],
        "stub": ["power loss = os._exit after k bytes of the cache write (a prefix is durable)", "wall clock for file "
                 "mtimes (os.utime with controller-chosen seconds)", "interpreter start (fork of a booted interpreter of "
                 "the chosen hash seed)"],
        "fault_kinds": ["crash_exit_during_cache_write", "oserror_during_cache_write", "damage_truncate", "damage_empty",
                        "damage_header", "damage_delete", "source_edit", "source_edit_during_load", "reload_in_process", "clock_jump_back", "hash_seed_change"],
        "assumptions": ["a crash leaves a prefix of the intended bytes (what the property states); reordered or zero-filled "
                        "blocks are not injected", "same-second-same-size source edits are outside the statement",
                        "a load that was itself crashed or given an OSError is not judged, only the loads after it"],
        "hashseeds": SERVER_SEEDS,
    }


# ------------------------------------------------------------------ controller

def _cache_path(scratch):
    src = os.path.join(scratch, "src", MODULE + ".lpy")
    return os.path.join(scratch, "pyc", src.lstrip("/"))[:-4] + ".cpython-312.lpyc"


KNOWN_MAGIC = (1149).to_bytes(2, "little") + b"\r\n"


def _cache_valid(cache_path, src_path):
    """Validity of the cache file left behind.  For the cache layout of the pinned tree (magic 1149) this is an
    INDEPENDENT parse: header equals the source stat and the payload unmarshals to a list.  If the tree under test
    has moved to another magic number (a legitimate format change must not raise an alarm) the tree's own
    header+payload validator decides instead; that the file then really loads and yields the from-source snapshot
    is established by the following fault-free load either way."""
    try:
        data = open(cache_path, "rb").read()
    except OSError:
        return False, "absent"
    st = os.stat(src_path)
    if len(data) < 12:
        return False, "short"
    from basilisp import importer as imp
    if imp.MAGIC_NUMBER != KNOWN_MAGIC:
        try:
            imp._get_basilisp_bytecode(MODULE, int(st.st_mtime), st.st_size, data)
        except Exception as e:  # noqa: BLE001
            return False, "rejected-by-loader:" + type(e).__name__
        return True, "ok"
    if data[:4] != KNOWN_MAGIC:
        return False, "magic"
    if int.from_bytes(data[4:8], "little") != (int(st.st_mtime) & 0xFFFFFFFF):
        return False, "mtime"
    if int.from_bytes(data[8:12], "little") != (st.st_size & 0xFFFFFFFF):
        return False, "size"
    try:
        v = marshal.loads(data[12:])
    except Exception:  # noqa: BLE001
        return False, "payload"
    return isinstance(v, list), "ok"


def _damage(cache_path, kind, frac):
    try:
        data = open(cache_path, "rb").read()
    except OSError:
        return "absent"
    if kind == "delete":
        os.unlink(cache_path)
        return "deleted"
    if kind == "empty":
        new = b""
    elif kind == "truncate":
        new = data[:int(frac * max(0, len(data) - 1))]
    elif kind == "header-only":
        new = data[:12]
    elif kind == "truncate-in-header":
        new = data[:int(frac * 12)]
    elif kind == "magic":
        new = bytes([data[0] ^ 0x01]) + data[1:] if data else data
    elif kind in ("mtime+1", "mtime-1", "size+1", "size-1") and len(data) >= 12:
        off = 4 if kind.startswith("mtime") else 8
        val = (int.from_bytes(data[off:off + 4], "little") + (1 if kind.endswith("+1") else -1)) & 0xFFFFFFFF
        new = data[:off] + val.to_bytes(4, "little") + data[off + 4:]
    else:
        return "noop"
    with open(cache_path, "wb") as f:
        f.write(new)
    return f"{kind}:{len(data)}->{len(new)}"


def _strip(snap):
    return json.dumps(snap, sort_keys=True, default=str)


def _mask_flags(x, kinds):
    """Canonical snapshot with the identity/hash-consistency flags of the given node kinds blanked,
    to name what a difference consists of (the label only; any difference is a violation)."""
    if isinstance(x, dict):
        return {k: _mask_flags(v, kinds) for k, v in x.items()}
    if isinstance(x, list):
        y = [_mask_flags(v, kinds) for v in x]
        if y and isinstance(y[0], str) and y[0] in kinds and isinstance(y[-1], bool):
            if (y[0] in ("kw", "sym") and len(y) == 4) or (y[0] == "set" and len(y) == 3) or (y[0] == "map" and len(y) == 4):
                y[-1] = None
        return y
    return x


def _diff(a, b):
    """First differing Var between two snapshots (for the report)."""
    for k in sorted(set(a) | set(b)):
        if a.get(k) != b.get(k):
            return {"var": k, "loaded": a.get(k), "reference": b.get(k)}
    return None


def run(workload, k):
    _st["n"] += 1
    scratch = os.path.join(B.CACHE, "run", f"c14-{os.getpid()}-{_st['n']}")
    shutil.rmtree(scratch, ignore_errors=True)
    os.makedirs(os.path.join(scratch, "src"))
    try:
        return _run(workload, scratch)
    finally:
        shutil.rmtree(scratch, ignore_errors=True)


def _run(workload, scratch):
    desc = workload["desc"]
    src_path = os.path.join(scratch, "src", MODULE + ".lpy")
    cache_path = _cache_path(scratch)
    calls = [c for u in desc["units"] for c in u["calls"]]
    nfx = ns_gen.n_effects(desc)
    clock = 1_700_000_000
    faults = {}
    extra = {"incarnations": 0, "invalid_cache_loads": 0, "cross_seed_cached_loads": 0, "cached_path_loads": 0,
             "reference_incarnations": 0}
    refs = {}
    log = []
    writer_hs = None          # hash seed of the incarnation that wrote the current cache file
    after_crash = False
    tampered = False          # the controller changed header fields of the current cache file (damage op)
    payload_stat = None       # (mtime, size) of the source text the current cache payload was compiled from

    def src_stat():
        st_ = os.stat(src_path)
        return (int(st_.st_mtime), st_.st_size)

    src_version = None        # version of the source text currently on disk
    payload_version = None    # version the payload of the current cache file was compiled from

    def fault(n):
        faults[n] = faults.get(n, 0) + 1

    def reference(hs):
        text = open(src_path).read()
        key = (hashlib.sha256(text.encode()).hexdigest(), hs)
        if key not in refs:
            rep = _incarnate(SERVER_SEEDS[hs], {"scratch": scratch, "module": MODULE, "ns": NSNAME, "calls": calls,
                                                "reference": True, "out": os.path.join(scratch, "ref.json")})
            extra["reference_incarnations"] += 1
            refs[key] = rep
        return refs[key]

    for step, op in enumerate(workload["history"]):
        if op[0] == "write":
            _, version, pad, dt = op
            text = ns_gen.render(desc, version).rstrip("\n") + ("\n;" + "p" * pad if pad else "") + "\n"
            with open(src_path, "w") as f:
                f.write(text)
            clock += dt
            os.utime(src_path, (clock, clock))
            if step:
                fault("source_edit")
                if dt < 0:
                    fault("clock_jump_back")
            log.append(["write", version, len(text), clock])
            src_version = version
            continue
        if op[0] == "damage":
            res = _damage(cache_path, op[1], op[2])
            kind = {"truncate": "damage_truncate", "header-only": "damage_truncate", "truncate-in-header": "damage_truncate",
                    "empty": "damage_empty", "delete": "damage_delete"}.get(op[1], "damage_header")
            if res not in ("absent", "noop"):
                fault(kind)
                if kind == "damage_header":
                    tampered = True
            log.append(["damage", op[1], res])
            continue
        _, hsi, crash = op
        valid_before, why = _cache_valid(cache_path, src_path)
        req = {"scratch": scratch, "module": MODULE, "ns": NSNAME, "calls": calls, "crash": crash,
               "out": os.path.join(scratch, "rep.json")}
        edit = None
        if crash and crash[0] == "edit":
            _, e_version, e_pad, e_dt = crash
            e_text = ns_gen.render(desc, e_version).rstrip("\n") + ("\n;" + "p" * e_pad if e_pad else "") + "\n"
            edit = {"path": src_path, "text": e_text, "mtime": clock + e_dt}
            req["crash"] = crash = None
            req["edit_during"] = edit
            pre_ref = reference(hsi)          # this load compiles the text that is on disk NOW
        reload_ = None
        if crash and crash[0] == "reload":
            _, r_version, r_pad, r_dt = crash
            r_text = ns_gen.render(desc, r_version).rstrip("\n") + ("\n;" + "p" * r_pad if r_pad else "") + "\n"
            reload_ = {"path": src_path, "text": r_text, "mtime": clock + r_dt}
            req["crash"] = crash = None
            req["reload"] = reload_
        pre_stat = src_stat()
        rep = _incarnate(SERVER_SEEDS[hsi], req)
        extra["incarnations"] += 1
        log.append(["load", SERVER_SEEDS[hsi], crash, {"valid_before": why, "path": rep.get("path"), "ok": rep.get("ok"),
                                                      "error": rep.get("error")}])
        det = {"history": workload["history"], "log": log, "step": step}
        if rep.get("harness"):
            return R.verdict("harness", f"{ID}/harness", {"report": rep, "log": log}, faults=faults, extra=extra)
        crashed_here = bool(rep.get("crashed")) or any(str(p).startswith("crash-") for p in rep.get("path", []))
        if crash and crashed_here:
            fault("crash_exit_during_cache_write" if crash[0] == "exit" else "oserror_during_cache_write")
            after_crash = True
            writer_hs = hsi
            continue            # (R) a load that was itself crashed is not judged
        if reload_:
            # the process that reloaded is not judged (an in-process reload legitimately keeps old state); what it
            # leaves behind is: the cache must be valid for the new text, and the following fresh loads are judged
            if not rep.get("ok"):
                sig = f"{ID}/import-failed:reload:{str(rep.get('error')).split(':')[1].strip() if ':' in str(rep.get('error')) else rep.get('error')}"
                return R.verdict("violation", sig, dict(det, report={k_: rep.get(k_) for k_ in ("error", "path", "trace")}),
                                 faults=faults, extra=extra)
            fault("reload_in_process")
            src_version = r_version
            clock += r_dt
            log.append(["reloaded-in-process", r_version, len(r_text), clock])
            valid_after, why_after = _cache_valid(cache_path, src_path)
            if not valid_after:
                return R.verdict("violation", f"{ID}/no-valid-cache-left-behind:after-reload:{why_after}", det,
                                 faults=faults, extra=extra)
            writer_hs = hsi
            payload_version = src_version
            payload_stat = src_stat()
            tampered = False
            after_crash = False
            continue
        # ---- judged load
        if not rep.get("ok"):
            sig = f"{ID}/import-failed:cache-{why}:{str(rep.get('error')).split(':')[0]}"
            return R.verdict("violation", sig, dict(det, report={k_: rep.get(k_) for k_ in ("error", "path", "effects", "trace")}),
                             faults=faults, extra=extra)
        path = rep["path"]
        used_cache = "cached-ok" in path
        if not valid_before:
            extra["invalid_cache_loads"] += 1
            if used_cache:
                return R.verdict("violation", f"{ID}/invalid-cache-executed:{why}", det, faults=faults, extra=extra)
            for p in path:
                if p.startswith("cached-failed") and not p.endswith("effects=0"):
                    return R.verdict("violation", f"{ID}/invalid-cache-partly-executed:{why}", det, faults=faults, extra=extra)
        if used_cache and valid_before and payload_version != src_version and (tampered or payload_stat == src_stat()):
            # the controller's own header damage made an OLD payload look current (header mtime/size
            # happen to equal the edited source's), or a later version has exactly the mtime and size of
            # the version the payload was compiled from: the same-second-same-size edit the statement
            # excludes, so this load is not judged.  (An old payload under a header that matches a source
            # with ANOTHER stat, without tampering, is judged: that is what a writer-side stat/read race
            # produces - seeded change C14-f.)
            extra["coincidental_header_match"] = extra.get("coincidental_header_match", 0) + 1
            continue
        if used_cache:
            extra["cached_path_loads"] += 1
            if writer_hs is not None and writer_hs != hsi:
                extra["cross_seed_cached_loads"] += 1
                fault("hash_seed_change")
        if rep["effects"] != list(range(nfx)):
            which = "from-cache" if used_cache else "from-source"
            return R.verdict("violation", f"{ID}/effects-not-exactly-once:{which}",
                             dict(det, effects=rep["effects"], expected=nfx), faults=faults, extra=extra)
        edited_here = bool(edit and rep.get("edited"))
        ref = pre_ref if edited_here else reference(hsi)
        if not ref.get("ok"):
            return R.verdict("harness", f"{ID}/harness", {"reference_failed": ref.get("error"), "log": log},
                             faults=faults, extra=extra)
        if _strip(rep["snapshot"]) != _strip(ref["snapshot"]):
            d = _diff(rep["snapshot"], ref["snapshot"])
            which = ("cached:cross-seed" if writer_hs != hsi else "cached:same-seed") if used_cache else "source"
            kindsig = "snapshot"
            for label, kinds in (("keyword-identity", ("kw",)), ("stale-hash", ("kw", "sym", "set", "map"))):
                if _mask_flags(_strip(rep["snapshot"]), kinds) == _mask_flags(_strip(ref["snapshot"]), kinds):
                    kindsig = label
                    break
            return R.verdict("violation", f"{ID}/not-equivalent-to-source:{which}:{kindsig}",
                             dict(det, diff=d, writer_seed=None if writer_hs is None else SERVER_SEEDS[writer_hs],
                                  reader_seed=SERVER_SEEDS[hsi]), faults=faults, extra=extra)
        if edited_here:
            # the cache left behind belongs to the text this load compiled, which is no longer the text on disk: it must
            # be stale for every later load (that is judged there), so "valid cache left behind" does not apply here
            fault("source_edit_during_load")
            writer_hs = hsi
            payload_version = src_version
            payload_stat = pre_stat
            src_version = e_version
            clock += e_dt
            tampered = False
            log.append(["edited-during-load", e_version, len(e_text), clock])
            after_crash = False
            continue
        valid_after, why_after = _cache_valid(cache_path, src_path)
        if not valid_after:
            return R.verdict("violation", f"{ID}/no-valid-cache-left-behind:{why_after}", det, faults=faults, extra=extra)
        if not used_cache:
            writer_hs = hsi
            payload_version = src_version
            payload_stat = src_stat()
            tampered = False
        after_crash = False
    # ---- exhaustive cut points of the final (valid) cache file at the decode layer
    bad = _cut_points(scratch, cache_path, src_path, calls, nfx, faults, extra)
    if bad and bad[0] == "HARNESS":
        return R.verdict("harness", f"{ID}/harness", bad[1], faults=faults, extra=extra)
    if bad:
        return R.verdict("violation", bad[0], dict(bad[1], history=workload["history"]), faults=faults, extra=extra)
    return R.verdict("pass", faults=faults, extra=extra)


def _cut_points(scratch, cache_path, src_path, calls, nfx, faults, extra):
    imp = _st["importer"]
    data = open(cache_path, "rb").read()
    st = os.stat(src_path)
    mtime, size = int(st.st_mtime), st.st_size
    n = len(data)
    limit = _st.get("exhaustive_limit", 20000)
    if n > limit:
        # unmarshalling a prefix is O(n): beyond the limit enumerate the header region and block
        # boundaries completely and sample the rest densely
        lens = sorted(set(list(range(0, min(n, 4097))) + list(range(max(0, n - 64), n))
                          + [x + d for x in range(4096, n, 4096) for d in (-1, 0, 1) if 0 <= x + d < n]
                          + random.Random(n).sample(range(n), min(n, 3000))))
        extra["cut_files_sampled"] = 1
    else:
        lens = range(n)
        extra["cut_files_exhaustive"] = 1
    classes = {}
    mv = memoryview(data)
    for ln in lens:
        try:
            imp._get_basilisp_bytecode(MODULE, mtime, size, mv[:ln])
        except BaseException as e:  # noqa: BLE001
            classes.setdefault(type(e).__name__, ln)
            continue
        return f"{ID}/truncated-cache-accepted-at-decode-layer", {"length": ln, "of": n}
    try:
        imp._get_basilisp_bytecode(MODULE, mtime, size, data)
    except BaseException as e:  # noqa: BLE001
        return f"{ID}/full-cache-rejected:{type(e).__name__}", {"of": n}
    _st["cut_points"] += len(lens)
    _st["cut_files"] += 1
    extra["cut_points"] = len(lens)
    # one representative per NEW exception class goes through the full import path
    for cls, ln in classes.items():
        if cls in _st["exc_classes"]:
            _st["exc_classes"][cls] += 1
            continue
        _st["exc_classes"][cls] = 1
        with open(cache_path, "wb") as f:
            f.write(data[:ln])
        rep = _incarnate(SERVER_SEEDS[0], {"scratch": scratch, "module": MODULE, "ns": NSNAME, "calls": calls,
                                          "out": os.path.join(scratch, "rep.json")})
        extra["incarnations"] = extra.get("incarnations", 0) + 1
        if rep.get("harness"):
            return ("HARNESS", {"report": rep})
        if not rep.get("ok") or "cached-ok" in rep.get("path", []) or rep.get("effects") != list(range(nfx)):
            return (f"{ID}/import-failed:cache-truncated:{cls}" if not rep.get("ok") else f"{ID}/invalid-cache-executed:truncated",
                    {"exception_class_at_decode_layer": cls, "truncated_to": ln, "of": n,
                     "report": {k_: rep.get(k_) for k_ in ("ok", "error", "path", "effects")}})
    return None


# ------------------------------------------------------------------ thorough: bundled namespaces across hash seeds

def driver_extra(args, seed, tier):
    if tier != "thorough":
        return None, []
    return _bundled_cross_seed()


BUNDLED = ["basilisp.core", "basilisp.string", "basilisp.set", "basilisp.walk", "basilisp.edn", "basilisp.json",
           "basilisp.contrib.bencode", "basilisp.data", "basilisp.io", "basilisp.template"]


def _bundled_cross_seed():
    """Compile all bundled namespaces from source under seed A into a fresh prefix; load them from that
    prefix under seed B; compile from source under B into another fresh prefix; compare public Vars."""
    viol = []
    pairs = [(101, 202), (202, 0), (0, 101)]
    res = {}
    base = os.path.join(B.CACHE, "run", f"c14-bundled-{os.getpid()}")
    shutil.rmtree(base, ignore_errors=True)
    code = ("import sys, json; sys.path.insert(0, %r)\n"
            "from checks import c14_child as c\n"
            "from sim import bootstrap as b\n"
            "b.boot_basilisp()\n"
            "rep = c.bundled_snapshot({'namespaces': %r})\n"
            "json.dump(rep, open(sys.argv[1], 'w'), default=str)\n" % (B.VERIF, BUNDLED))
    try:
        for a, b in pairs:
            pa = os.path.join(base, f"prefix-{a}")
            pb = os.path.join(base, f"prefix-src-{b}")
            outs = {}
            for label, hs, prefix in (("write", a, pa), ("cached", b, pa), ("source", b, pb)):
                out = os.path.join(base, f"{label}-{a}-{b}.json")
                env = B.controlled_env(hs, {"PYTHONPYCACHEPREFIX": prefix})
                r = subprocess.run([B.PY, "-c", code, out], env=env, capture_output=True, text=True, timeout=900, cwd=B.VERIF)
                if r.returncode != 0:
                    viol.append({"signature": f"{ID}/harness-bundled", "detail": r.stderr[-800:]})
                    return {"bundled_cross_seed": "harness failure"}, viol
                outs[label] = json.load(open(out))["bundled"]
            ndiff = 0
            for ns in BUNDLED:
                for var in sorted(set(outs["cached"][ns]) | set(outs["source"][ns])):
                    if outs["cached"][ns].get(var) != outs["source"][ns].get(var):
                        ndiff += 1
                        if len(viol) < 3:
                            viol.append({"signature": f"{ID}/bundled-namespace-differs-from-source-across-hash-seeds",
                                         "detail": {"ns": ns, "var": var, "writer_seed": a, "reader_seed": b,
                                                    "cached": outs["cached"][ns].get(var),
                                                    "source": outs["source"][ns].get(var)}})
            res[f"{a}->{b}"] = {"namespaces": len(BUNDLED), "vars": sum(len(outs["source"][n]) for n in BUNDLED),
                                "differences": ndiff}
    finally:
        shutil.rmtree(base, ignore_errors=True)
    return {"bundled_cross_seed": res}, viol
