"""C11 - dynamic bindings are scoped, thread-local and conveyed to futures.

Real: runtime.Var / _VarBindings / _ThreadBindings (true threading.local: tasks are real
threads), push/pop/get_thread_bindings, runtime.bindings, the compiled binding /
with-bindings / bound-fn / future / pmap / set! forms (programs are generated per run
and compiled by the real compiler), the real ThreadPoolExecutor with worker reuse.
Stub: Var locks, pool primitives, scheduler.  Oracle: models/bindings.py.
"""
import copy

from sim import primitives as P
from sim import runner as R
from sim import shims, trace
from models import bindings as M

ID = "C11"
ENGINE = "threadsim"
LEVEL = "exploration"
TIERS = {"quick": {"runs": 10000, "timeout": 3600, "lane_timeout": 1800}, "thorough": {"runs": 300000, "timeout": 21600,
                                                                "lane_timeout": 10800}}
EST_STEPS = [150, 500, 1500]
P_OPCODE = 0.0
MAX_STEPS = 60000
NS = "verif.c11"

_st = {}
_fns = {}
_run = {}          # per-run mutable state used by the interned harness fns


class SeededVarMixin:
    pass


def lane_setup():
    from checks import common
    shims.install_lang(("atom", "reference", "runtime", "delay", "promise"))
    shims.install_futures()
    import basilisp.lang.runtime as rt
    import basilisp.lang.futures as fut_mod
    from basilisp.lang import symbol as sym, map as lmap, keyword as kw, compiler, reader

    class SeededVar(rt.Var):
        __slots__ = ()

        def __hash__(self):
            return _run["varhash"][self._name.name]

    _st["rt"] = rt
    _st["Pool"] = fut_mod.ThreadPoolExecutor
    _st["sym"] = sym
    ctx = compiler.CompilerContext("<verif-c11>")

    def ev(s, nsname=NS):
        with rt.ns_bindings(nsname) as ns:
            last = None
            for form in reader.read_str(s):
                last = compiler.compile_and_exec_form(form, ctx, ns)
            return last
    _st["ev"] = ev
    ev(f"(ns {NS})", "basilisp.user")
    ns = rt.Namespace.get(sym.symbol(NS))
    _st["ns"] = ns
    _run["varhash"] = {"*a*": 1, "*b*": 2, "*c*": 3, "nd": 4}
    _st["SeededVar"] = SeededVar
    _st["redef_meta"] = lmap.map({kw.keyword("redef"): True})
    _fresh_vars()
    for name, fn in (("probe!", _probe), ("pstart!", _pstart), ("caught!", _caught), ("root!", _root),
                     ("run-thread!", _run_thread), ("py-bindings!", _py_bindings), ("py-redefs!", _py_redefs)):
        rt.Var.intern(ns, sym.symbol(name), fn)
    ev(HELPERS)
    for nm in HELPER_NAMES:
        _fns[nm] = ns.find(sym.symbol(nm)).value
    for n in ("alter-var-root", "get-thread-bindings", "push-thread-bindings", "pop-thread-bindings",
              "with-bindings*", "bound-fn*", "future-call", "deref", "pmap"):
        _fns[n] = common.core_fn(n)
    _st["pool_var"] = common.core_ns().find(sym.symbol("*executor-pool*"))
    trace.register(rt.Var, [".py"])
    trace.register(rt._ThreadBindings, [".py"])
    for f in (rt.push_thread_bindings, rt.pop_thread_bindings, rt.get_thread_bindings, rt.bindings):
        trace.register(f, [".py"])
    trace.register_lisp_ns(common.core_ns(), ["with-bindings*", "bound-fn*", "future-call",
                                              "get-thread-bindings", "push-thread-bindings",
                                              "pop-thread-bindings"], "core.lpy")
    trace.register(fut_mod.ThreadPoolExecutor, [".py"])


# ------------------------------------------------------------------ compiled helpers
# The forms under test (binding, with-bindings, set!, bound-fn, future, pmap, try/finally)
# are compiled ONCE per lane by the real compiler into these helpers; the per-run program
# tree is then walked in Python, passing closures as thunks.  (Compiling a fresh program
# per run costs 10x more under 16 parallel lanes: CPython 3.12 mmaps/munmaps a 16 KiB
# frame-stack chunk each time the analyzer's recursion crosses a chunk boundary.)  A seeded
# fraction of runs still compiles the whole program text (workload["compiled"]).

_SUBSETS = [("a",), ("b",), ("c",), ("a", "b"), ("a", "c"), ("b", "c"), ("a", "b", "c")]


def _helper_src():
    out = []
    names = []
    for sub in _SUBSETS:
        for nd in (False, True):
            nm = "bind-" + "".join(sub) + ("-nd" if nd else "")
            params = " ".join(f"v{x}" for x in sub)
            pairs = " ".join(f"*{x}* v{x}" for x in sub) + (" nd 77" if nd else "")
            out.append(f"(defn {nm} [{params} thunk] (binding [{pairs}] (thunk)))")
            names.append(nm)
    for x in "abc":
        out.append(f"(defn set-{x}! [v] (set! *{x}* v))")
        names.append(f"set-{x}!")
    for x in "abc":
        out.append(f"(defn redefs-{x}* [v thunk] (with-redefs [*{x}* v] (thunk)))")
        names.append(f"redefs-{x}*")
    out.append("(defn wb* [m thunk] (with-bindings m (thunk)))")
    out.append("(defn pyb* [m thunk] (py-bindings! m thunk))")
    out.append("(defn try* [thunk tid] (try (thunk) (catch python/Exception _ (caught! tid))))")
    out.append('(defn throw* [] (throw (ex-info "boom" {})))')
    out.append("(defn fut* [thunk] (future (thunk)))")
    out.append("(defn late-fut* [m thunk] (let [gate (promise) f (with-bindings m (future (deref gate) (thunk)))] "
               "(deliver gate true) (deref f)))")
    out.append("(defn bf* [thunk] (bound-fn [] (thunk)))")
    # a bound fn made in one binding context and SUBMITTED AS IT IS from another: the worker must see the
    # submission site's bindings too (underneath the ones the bound fn was made with)
    out.append("(defn refut-call* [m bf] (with-bindings m (deref (future-call bf))))")
    out.append("(defn refut-bf* [m bf] (with-bindings m (bound-fn* bf)))")
    names += ["refut-call*", "refut-bf*"]
    out.append("(defn pmap* [thunk n] (doall (pmap (fn [_i] (thunk)) (range n))))")
    out.append("(defn probe* [id] (probe! id (pstart!) *a* *b* *c*))")
    names += ["wb*", "pyb*", "try*", "throw*", "fut*", "late-fut*", "bf*", "pmap*", "probe*"]
    return " ".join(out), names


HELPERS, HELPER_NAMES = _helper_src()


class Interp:
    """Walks a program tree calling the compiled helpers."""

    def __init__(self):
        from basilisp.lang import map as lmap
        self.lmap = lmap
        self.vars = _st["vars"]

    def block(self, nodes):
        for n in nodes:
            self.node(n)

    def _map(self, pairs, fault):
        items = [(self.vars[v], val) for v, val in pairs]
        if fault is not None and fault[0] == "nondyn":
            items.insert(min(fault[1], len(items)), (self.vars["nd"], 77))
        return self.lmap.hash_map(*[x for kv in items for x in kv])

    def node(self, n):
        t = n[0]
        if t == "probe":
            _fns["probe*"](n[1])
        elif t == "binding":
            _, form, pairs, body, fault = n
            thunk = lambda: self.block(body)  # noqa: E731
            if form == "binding":
                order = sorted(p[0][1] for p in pairs)
                vals = {p[0][1]: p[1] for p in pairs}
                nm = "bind-" + "".join(order) + ("-nd" if fault is not None and fault[0] == "nondyn" else "")
                _fns[nm](*[vals[x] for x in order], thunk)
            elif form == "with-bindings":
                _fns["wb*"](self._map(pairs, fault), thunk)
            else:
                _fns["pyb*"](self._map(pairs, fault), thunk)
        elif t == "set":
            _fns[f"set-{n[1][1]}!"](n[2])
        elif t == "try":
            _fns["try*"](lambda: self.block(n[2]), n[1])
        elif t == "throw":
            _fns["throw*"]()
        elif t == "root":
            _root(self.vars[n[1]], n[2])
        elif t == "redefs":
            _py_redefs(n[1], n[2], lambda: self.block(n[3]))
        elif t == "future":
            fut = _fns["fut*"](lambda: self.block(n[1]))
            self.block(n[2])
            _fns["deref"](fut)
        elif t == "latefut":
            _fns["late-fut*"](self._map(n[1], None), lambda: self.block(n[2]))
        elif t == "refut":
            bf = _fns["bf*"](lambda: self.block(n[2]))                # made here (context A)
            if n[3] == "future-call":
                _fns["refut-call*"](self._map(n[1], None), bf)         # handed over as it is inside context B
            else:
                _run_thread(_fns["refut-bf*"](self._map(n[1], None), bf))
        elif t == "boundfn":
            _run_thread(_fns["bf*"](lambda: self.block(n[1])))
        elif t == "bflocal":
            f = _fns["bf*"](lambda: self.block(n[1]))
            self.block(n[2])
            f()
        elif t == "pmap":
            _fns["pmap*"](lambda: self.block(n[2]), n[1])
        else:
            raise ValueError(t)


# ------------------------------------------------------------------ harness fns (interned in the ns)

def _pstart():
    return _run["k"].seq


def _probe(pid, start, a, b, c):
    k = _run["k"]
    P.point("probe")
    end = k.ev("probe", pid, (a, b, c))
    _run["obs"].append((k.cur.name if k.cur else "?", pid, start, end, (a, b, c)))
    return None


def _caught(tid):
    _run["caught"].append(tid)
    _run["k"].ev("caught", tid)
    return None


def _root(var, val):
    k = _run["k"]
    inv = k.ev("root-inv", var._name.name, val)
    _fns["alter-var-root"](var, lambda _old: val)
    ret = k.ev("root-ret", var._name.name, val)
    _run["roots"].append((var._name.name, val, inv, ret))
    _run["cur_root"][var._name.name] = val
    return None


def _run_thread(f):
    box = {}

    def target():
        try:
            f()
        except P._k.SimAbort:
            raise
        except BaseException as e:  # noqa: BLE001
            box["exc"] = e
    _run["nthreads"] += 1
    th = P.SimThread(target=target, name=f"bf{_run['nthreads']}")
    th.start()
    th.join()
    if "exc" in box:
        raise box["exc"]
    return None


def _py_redefs(name, val, thunk):
    """(with-redefs [<var> val] (thunk)) through the compiled helper, made by the designated root-changing thread:
    the root becomes val somewhere between the call and the body's start and goes back to what it was at entry
    somewhere between the body's end and the return (recorded as two root-change intervals)."""
    k = _run["k"]
    cur = _run["cur_root"]
    prev = cur.get(name, 0)
    inv = k.ev("redef-inv", name, val)
    mark = {}

    def body():
        mark["start"] = k.ev("redef-in", name, val)
        _run["roots"].append((name, val, inv, mark["start"]))
        cur[name] = val
        try:
            return thunk()
        finally:
            mark["end"] = k.ev("redef-out", name, prev)
    try:
        return _fns[f"redefs-{name[1]}*"](val, body)
    finally:
        ret = k.ev("redef-ret", name, prev)
        if "start" in mark:
            _run["roots"].append((name, prev, mark.get("end", mark["start"]), ret))
            cur[name] = prev


def _py_bindings(m, thunk):
    with _st["rt"].bindings(m):
        return thunk()


# ------------------------------------------------------------------ generation

class _Gen:
    def __init__(self, rng, faults):
        self.rng = rng
        self.faults = faults
        self.pid = 0
        self.tid = 0
        self.val = 10

    def nid(self):
        self.pid += 1
        return self.pid

    def nval(self):
        self.val += 1
        return self.val

    def block(self, depth, bound, ctx, budget):
        rng = self.rng
        out = []
        n = rng.choice([1, 2, 2, 3, 4])
        for _ in range(n):
            if budget[0] <= 0:
                break
            budget[0] -= 1
            r = rng.random()
            if r < 0.28:
                out.append(["probe", self.nid()])
            elif r < 0.52 and depth < 4:
                out.append(self.binding(depth, bound, ctx, budget, None))
                out.append(["probe", self.nid()])
            elif r < 0.62 and bound:
                out.append(["set", rng.choice(sorted(bound)), self.nval()])
                out.append(["probe", self.nid()])
            elif r < 0.72 and depth < 4:
                self.tid += 1
                tid = self.tid
                ctx2 = dict(ctx, in_try=ctx["in_try"] + 1)
                body = self.block(depth + 1, bound, ctx2, budget)
                if self.faults and rng.random() < 0.7:
                    body.append(self.thrower(depth + 1, bound, ctx2, budget))
                out.append(["try", tid, body])
                out.append(["probe", self.nid()])
            elif r < 0.82 and not ctx.get("in_pool") and depth < 4:
                # never a future inside pool work: a bounded pool would legitimately starve
                ctx2 = dict(ctx, fdepth=ctx["fdepth"] + 1, child=True, in_pool=True)
                body = [["probe", self.nid()]] + self.block(depth + 1, set(bound), ctx2, budget)
                if self.faults and ctx["in_try"] > 0 and rng.random() < 0.35:
                    # the body dies with an uncaught exception or failed push ON THE POOL WORKER; the
                    # creator's enclosing try sees it at deref, the worker must be left clean
                    body.append(self.thrower(depth + 1, set(bound), ctx2, budget))
                after = self.block(depth + 1, bound, ctx, budget) if rng.random() < 0.4 else []
                out.append(["future", body, after])
                out.append(["probe", self.nid()])
            elif r < 0.845 and not ctx.get("in_pool") and depth < 4:
                vs = rng.sample(M.VARS, rng.choice([1, 2]))
                ctx2 = dict(ctx, fdepth=ctx["fdepth"] + 1, child=True, in_pool=True)
                out.append(["latefut", [[v, self.nval()] for v in vs],
                            [["probe", self.nid()]] + self.block(depth + 1, set(bound) | set(vs), ctx2, budget)])
                out.append(["probe", self.nid()])
            elif r < 0.87 and ctx["fdepth"] < 2 and depth < 4:
                ctx2 = dict(ctx, fdepth=ctx["fdepth"] + 1, child=True)
                if rng.random() < 0.3:
                    how = "bound-fn*" if ctx.get("in_pool") else rng.choice(["future-call", "bound-fn*"])
                    vs = rng.sample(M.VARS, rng.choice([1, 2]))
                    ctx3 = dict(ctx2, fdepth=2, in_pool=True) if how == "future-call" else ctx2
                    out.append(["refut", [[v, self.nval()] for v in vs],
                                [["probe", self.nid()]] + self.block(depth + 2, set(bound) | set(vs), ctx3, budget), how])
                    out.append(["probe", self.nid()])
                    continue
                out.append(["boundfn", [["probe", self.nid()]] + self.block(depth + 1, set(bound), ctx2, budget)])
            elif r < 0.92 and not ctx.get("in_pool") and depth < 4:
                ctx2 = dict(ctx, fdepth=2, child=True, in_pool=True)
                pbody = [["probe", self.nid()]] + self.block(depth + 2, set(bound), ctx2, budget)
                if self.faults and ctx["in_try"] > 0 and rng.random() < 0.3:
                    pbody.append(self.thrower(depth + 2, set(bound), ctx2, budget))
                out.append(["pmap", rng.choice([1, 2, 3]), pbody])
            elif r < 0.945 and depth < 4 and bound:
                body = [["probe", self.nid()]] + self.block(depth + 1, set(bound), ctx, budget)
                after = []
                if rng.random() < 0.7:
                    after.append(["set", rng.choice(sorted(bound)), self.nval()])
                    after.append(["probe", self.nid()])
                out.append(["bflocal", body, after])
                out.append(["probe", self.nid()])
            elif r < 0.97 and ctx["t0"] and not ctx.get("child"):
                if rng.random() < 0.4 and depth < 4:
                    # with-redefs by the designated root-changing thread, possibly on a Var that is thread-bound
                    # right here: the root changes for the body and goes back to what it was, whatever this
                    # thread's own binding of the Var is
                    v = rng.choice(sorted(bound)) if bound and rng.random() < 0.7 else rng.choice(M.VARS)
                    out.append(["redefs", v, self.nval(),
                                [["probe", self.nid()]] + self.block(depth + 1, set(bound), ctx, budget)])
                    out.append(["probe", self.nid()])
                else:
                    out.append(["root", rng.choice(M.VARS), self.nval()])
            else:
                out.append(["probe", self.nid()])
        return out

    def binding(self, depth, bound, ctx, budget, fault):
        rng = self.rng
        vs = rng.sample(M.VARS, rng.choice([1, 1, 2, 3]))
        if fault is None and rng.random() < 0.06:
            vs = []                      # a frame that binds nothing must still be pushed and popped as one frame
        pairs = [[v, self.nval()] for v in vs]
        form = rng.choice(["binding", "binding", "with-bindings", "py-bindings"])
        if not vs:
            form = rng.choice(["with-bindings", "py-bindings"])      # the binding macro rejects an empty vector
        if fault is None:
            body = [["probe", self.nid()]] + self.block(depth + 1, bound | set(vs), ctx, budget)
            return ["binding", form, pairs, body, None]
        if fault == "reject":
            if "*b*" not in vs:
                pairs.append(["*b*", M.REJECT])
            else:
                for p in pairs:
                    if p[0] == "*b*":
                        p[1] = M.REJECT
            rng.shuffle(pairs)
            return ["binding", form, pairs, [["probe", self.nid()]], ["reject", "*b*"]]
        # a multi-Var push with the plain Var somewhere in it
        if len(pairs) < 3 and rng.random() < 0.7:
            for v in M.VARS:
                if v not in vs and len(pairs) < 3:
                    pairs.append([v, self.nval()])
        return ["binding", form, pairs, [["probe", self.nid()]], ["nondyn", rng.randrange(len(pairs) + 1)]]

    def thrower(self, depth, bound, ctx, budget):
        rng = self.rng
        r = rng.random()
        if "*b*" in bound and rng.random() < 0.3:
            # set! to a value the Var's validator rejects: must raise and leave the binding as it was
            self._set_reject = getattr(self, "_set_reject", 0) + 1
            return ["set", "*b*", M.REJECT]
        if r < 0.3:
            return ["throw"]
        if r < 0.75:
            node = self.binding(depth, bound, ctx, budget, rng.choice(["nondyn", "nondyn", "reject"]))
        else:
            node = ["throw"]
        # optionally bury the thrower inside live bindings so the unwinding crosses frames
        if rng.random() < 0.5 and depth < 4:
            vs = rng.sample(M.VARS, rng.choice([1, 2]))
            return ["binding", rng.choice(["binding", "with-bindings", "py-bindings"]),
                    [[v, self.nval()] for v in vs], [["probe", self.nid()], node], None]
        return node


def gen(rng, tier, index):
    faults = rng.random() < 0.6
    g = _Gen(rng, faults)
    ntasks = rng.choice([1, 2, 2, 3])
    tasks = []
    for t in range(ntasks):
        ctx = {"in_try": 0, "fdepth": 0, "t0": t == 0}
        budget = [rng.choice([6, 10, 14])]
        prog = [["probe", g.nid()]] + g.block(0, set(), ctx, budget) + [["probe", g.nid()]]
        tasks.append(prog)
    hs = rng.sample(range(32), 4)
    return {"tasks": tasks, "varhash": {"*a*": hs[0], "*b*": hs[1], "*c*": hs[2], "nd": hs[3]},
            "workers": rng.choice([1, 1, 2, 3]), "faults": faults, "compiled": rng.random() < 0.06}


def _shrink_nodes(nodes):
    """Yield smaller versions of a node list (drop a node, hoist or shrink a body)."""
    for i in range(len(nodes)):
        yield nodes[:i] + nodes[i + 1:]
    for i, n in enumerate(nodes):
        t = n[0]
        bodies = {"binding": [3], "try": [2], "future": [1, 2], "boundfn": [1], "pmap": [2],
                  "bflocal": [1, 2], "latefut": [2], "redefs": [3], "refut": [2]}.get(t, [])
        for bi in bodies:
            for sb in _shrink_nodes(n[bi]):
                m = copy.deepcopy(n)
                m[bi] = sb
                yield nodes[:i] + [m] + nodes[i + 1:]
        if t == "pmap" and n[1] > 1:
            m = copy.deepcopy(n)
            m[1] -= 1
            yield nodes[:i] + [m] + nodes[i + 1:]
        if t == "binding" and n[4] is None and len(n[2]) > 1:
            for j in range(len(n[2])):
                m = copy.deepcopy(n)
                del m[2][j]
                yield nodes[:i] + [m] + nodes[i + 1:]


def _valid(prog):
    """set! only on thread-bound Vars; throwers only inside a try (model raises otherwise)."""
    try:
        M.evaluate(copy.deepcopy(prog))
        return True
    except (AssertionError, M.ModelThrow):
        return False


def shrink(workload):
    if len(workload["tasks"]) > 1:
        for i in range(len(workload["tasks"])):
            w = copy.deepcopy(workload)
            del w["tasks"][i]
            yield w
    for i, prog in enumerate(workload["tasks"]):
        for sp in _shrink_nodes(prog):
            if sp and _valid(sp):
                w = copy.deepcopy(workload)
                w["tasks"][i] = sp
                yield w
    if workload["workers"] > 1:
        w = copy.deepcopy(workload)
        w["workers"] = 1
        yield w


def nontrivial(rec):
    ex = rec.get("extra") or {}
    return rec["switches"] > 1 and (ex.get("children", 0) > 0 or bool(rec.get("faults")))


def describe():
    return {
        "rule": "workload = 1-3 top-level threads each running a generated, really compiled program of nested "
                "binding / with-bindings / runtime.bindings (depth<=4) over 3 dynamic Vars with seeded hash order, "
                "set!, try/throw, alter-var-root, future (with creator work between creation and deref), bound-fn on "
                "a fresh thread, pmap; push faults: plain Var inside a multi-Var binding, validator rejection; pool of "
                "1-3 reused workers; final probes on every worker. Non-trivial = more than one hand-off AND (work was "
                "conveyed to another thread OR a fault fired); distinct = distinct (switch signature, workload).",
        "real": ["runtime.Var/_VarBindings/_ThreadBindings (real threading.local)", "runtime.push/pop/get_thread_bindings",
                 "runtime.bindings", "core.lpy binding with-bindings* bound-fn* future-call future pmap (compiled per run "
                 "by the real reader/analyzer/generator)", "basilisp.lang.futures.ThreadPoolExecutor + stdlib worker loop",
                 "native LazySeq (pmap)"],
        "stub": ["Var._lock (sim RLock)", "pool locks/queue/threads (sim)", "OS scheduler", "clock"],
        "fault_kinds": ["push_nondyn", "push_reject", "body_throw", "set_reject"],
        "assumptions": ["Var hash order is a seeded permutation (address-dependent in production)",
                        "root changes are made by one designated thread; concurrent readers accept any overlapping value"],
        "hashseeds": [0],
    }


# ------------------------------------------------------------------ execution

def _count_faults(nodes, acc):
    for n in nodes:
        t = n[0]
        if t == "binding":
            if n[4] is not None:
                acc["push_" + n[4][0]] = acc.get("push_" + n[4][0], 0) + 1
            _count_faults(n[3], acc)
        elif t == "set" and n[2] == M.REJECT:
            acc["set_reject"] = acc.get("set_reject", 0) + 1
        elif t == "throw":
            acc["body_throw"] = acc.get("body_throw", 0) + 1
        elif t == "try":
            _count_faults(n[2], acc)
        elif t == "redefs":
            acc["with_redefs"] = acc.get("with_redefs", 0) + 1
            _count_faults(n[3], acc)
        elif t == "future":
            acc["children"] = acc.get("children", 0) + 1
            _count_faults(n[1], acc)
            _count_faults(n[2], acc)
        elif t in ("boundfn",):
            acc["children"] = acc.get("children", 0) + 1
            _count_faults(n[1], acc)
        elif t in ("latefut", "refut"):
            acc["children"] = acc.get("children", 0) + 1
            _count_faults(n[2], acc)
        elif t == "bflocal":
            acc["children"] = acc.get("children", 0) + 1
            _count_faults(n[1], acc)
            _count_faults(n[2], acc)
        elif t == "pmap":
            acc["children"] = acc.get("children", 0) + n[1]
            _count_faults(n[2], acc)


def _fresh_vars():
    sym, ns, SeededVar = _st["sym"], _st["ns"], _st["SeededVar"]
    vars_ = {}
    for name in ("*a*", "*b*", "*c*", "nd"):
        v = SeededVar(ns, sym.symbol(name), dynamic=name != "nd", meta=_st["redef_meta"])
        ns.intern(sym.symbol(name), v, force=True)
        v.bind_root(0)
        vars_[name] = v
    _st["vars"] = vars_
    return vars_


def run(workload, k):
    rt = _st["rt"]
    _run.update(k=k, obs=[], caught=[], roots=[], cur_root={}, nthreads=0, varhash=workload["varhash"])
    # every run gets Vars nobody has ever bound, built by the real constructor (a Var's first push is a state of its
    # own - seeded change C11-e made the thread-local stack lazy); the compiled helpers find them by name
    vars_ = _fresh_vars()
    vars_["*b*"].set_validator(lambda x: x != M.REJECT)
    fns = []
    counts = {}
    interp = Interp()
    for prog in workload["tasks"]:
        if workload.get("compiled"):
            f = _st["ev"](M.emit_program(prog))
            trace.register(f, ["<verif-c11>"])
        else:
            f = (lambda prog=prog: interp.block(prog))
        fns.append(f)
        _count_faults(prog, counts)
    models = [M.evaluate(copy.deepcopy(p)) for p in workload["tasks"]]
    children = counts.pop("children", 0)
    st = {"task_exc": {}, "final": [], "nworkers": 0}
    pool_var = _st["pool_var"]
    old_pool = pool_var.root

    def main():
        pool = _st["Pool"](max_workers=workload["workers"])
        pool_var.bind_root(pool)
        try:
            ths = []
            for ti, f in enumerate(fns):
                def tb(ti=ti, f=f):
                    try:
                        f()
                    except P._k.SimAbort:
                        raise
                    except BaseException as e:  # noqa: BLE001
                        st["task_exc"][ti] = e
                th = P.SimThread(target=tb, name=f"T{ti}")
                ths.append(th)
            for th in ths:
                th.start()
            for th in ths:
                th.join()
            # one probe on every pool worker that exists (barrier forces one job per worker)
            nw = len(pool._threads)
            st["nworkers"] = nw
            if nw:
                arrived = [0]
                gate = P.SimEvent()

                def wprobe():
                    a, b, c = (vars_[n].value for n in M.VARS)
                    st["final"].append((k.cur.name, (a, b, c), rt.get_thread_bindings().__len__()))
                    arrived[0] += 1
                    if arrived[0] == nw:
                        gate.set()
                    gate.wait()
                futs = [pool.submit(wprobe) for _ in range(nw)]
                for fu in futs:
                    fu.deref()
        finally:
            pool.shutdown(wait=True)
            pool_var.bind_root(old_pool)

    k.spawn(main, name="main")
    k.run()
    if pool_var.root is not old_pool:
        pool_var.bind_root(old_pool)
    faults = dict(counts)
    kv = R.kernel_failure_verdict(ID, k)
    if kv is not None:
        kv["faults"] = faults
        return kv
    mt = k.by_name["main"]
    if mt.exc is not None and mt.exc != "abort":
        return R.verdict("harness", f"{ID}/harness", "main task raised " + repr(mt.exc), faults=faults)
    return _judge(workload, models, st, faults, children)


def _root_allowed(var, start, end, roots):
    """Values a root read of `var` inside [start, end] may legitimately see."""
    latest = 0
    latest_ret = -1
    allowed = set()
    for v, val, inv, ret in roots:
        if v != var:
            continue
        if ret < start:
            if ret > latest_ret:
                latest, latest_ret = val, ret
        elif inv <= end:
            allowed.add(val)
    allowed.add(latest)
    return allowed


def _judge(workload, models, st, faults, children):
    expect = {}
    failed_before = {}
    caught_want = []
    for m in models:
        expect.update(m.expect)
        failed_before.update(m.failed_push_before)
        for t, c in m.caught.items():
            caught_want += [t] * c
    obs = _run["obs"]
    roots = _run["roots"]
    det = {"observations": [list(o) for o in obs], "caught": sorted(_run["caught"]), "roots": roots,
           "final_worker_probes": st["final"], "programs": [M.emit_program(p) for p in workload["tasks"]]}
    extra = {"children": children, "probes": len(obs), "compiled_program_runs": int(bool(workload.get("compiled")))}
    for ti, e in sorted(st["task_exc"].items()):
        return R.verdict("violation", f"{ID}/unexpected-exception:{type(e).__name__}",
                         dict(det, task=ti, exc=repr(e)[:300]), faults=faults, extra=extra)
    seen = {}
    for task, pid, start, end, triple in obs:
        seen[pid] = seen.get(pid, 0) + 1
        if pid not in expect:
            return R.verdict("violation", f"{ID}/unexpected-probe",
                             dict(det, probe=pid, note="a form that must have failed ran its body"),
                             faults=faults, extra=extra)
        want, ctxkind, _cnt = expect[pid]
        for var, w, got in zip(M.VARS, want, triple):
            ok = (got in _root_allowed(var, start, end, roots)) if w == M.ROOT else (got == w)
            if not ok:
                where = "after-failed-push" if failed_before.get(pid) else ctxkind
                return R.verdict("violation", f"{ID}/probe-mismatch:{where}",
                                 dict(det, probe=pid, task=task, var=var, want=w, got=got), faults=faults, extra=extra)
    for pid, (want, ctxkind, cnt) in expect.items():
        if seen.get(pid, 0) != cnt:
            return R.verdict("violation", f"{ID}/probe-count",
                             dict(det, probe=pid, want=cnt, got=seen.get(pid, 0)), faults=faults, extra=extra)
    if sorted(_run["caught"]) != sorted(caught_want):
        return R.verdict("violation", f"{ID}/catch-mismatch",
                         dict(det, want=sorted(caught_want)), faults=faults, extra=extra)
    for name, triple, nb in st["final"]:
        for var, got in zip(M.VARS, triple):
            if got not in _root_allowed(var, 1 << 60, 1 << 60, roots) or nb:
                return R.verdict("violation", f"{ID}/worker-leak",
                                 dict(det, worker=name, var=var, got=got, thread_bindings=nb), faults=faults, extra=extra)
    return R.verdict("pass", faults=faults, extra=extra)
