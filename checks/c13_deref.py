"""C13 - delays run once, promises deliver once, futures yield their body's outcome.

Real: basilisp.lang.delay.Delay, promise.Promise, futures.Future/ThreadPoolExecutor, the
stdlib concurrent.futures worker loop and Future, core.lpy deref/force/deliver/
realized?/future-call/bound-fn*.  Stub: locks/conditions/semaphores/queues/threads under
those classes, the monotonic clock, the scheduler.
"""
import collections
import copy
import socket

from sim import primitives as P
from sim import runner as R
from sim import shims, trace
from models import lin

ID = "C13"
ENGINE = "threadsim"
LEVEL = "exploration"
TIERS = {"quick": {"runs": 30000, "timeout": 3600, "lane_timeout": 1800}, "thorough": {"runs": 900000, "timeout": 21600,
                                                               "lane_timeout": 10800}}
EST_STEPS = [80, 250, 700]
P_OPCODE = 0.1
P_JUMP = [0.0, 0.0, 0.02, 0.1]
MAX_STEPS = 30000

_fns = {}
Delay = Promise = Pool = None
kw = None
TIMEOUT_VAL = None


class Boom(Exception):
    pass


def lane_setup():
    global Delay, Promise, Pool, kw, TIMEOUT_VAL
    from checks import common
    shims.install_lang(("atom", "reference", "promise", "delay", "runtime"))
    shims.install_futures()
    import basilisp.lang.atom as atom_mod
    import basilisp.lang.delay as delay_mod
    import basilisp.lang.promise as promise_mod
    import basilisp.lang.futures as fut_mod
    import basilisp.lang.keyword as keyword
    import basilisp.lang.runtime as rt
    Delay, Promise, Pool = delay_mod.Delay, promise_mod.Promise, fut_mod.ThreadPoolExecutor
    kw = keyword
    TIMEOUT_VAL = keyword.keyword("timed-out")
    for n in ("deref", "force", "deliver", "realized?", "future-call", "future-done?", "bound-fn*",
              "with-bindings*", "future-cancel", "future-cancelled?", "future?"):
        _fns[n] = common.core_fn(n)
    trace.register(atom_mod.Atom, [".py"], opcode=True)
    trace.register(delay_mod.Delay, [".py"], opcode=True)
    trace.register(promise_mod.Promise, [".py"], opcode=True)
    trace.register(fut_mod.Future, [".py"], opcode=True)
    trace.register(fut_mod.ThreadPoolExecutor, [".py"])
    trace.register_lisp_ns(common.core_ns(), ["deref", "force", "deliver", "future-call", "bound-fn*",
                                              "with-bindings*"], "core.lpy")
    trace.register(rt._deref_blocking, [".py"])


# ------------------------------------------------------------------ generation

EXC_PALETTE = ["ValueError", "ExceptionInfo", "TimeoutError", "socket.timeout", "OSError", "Boom"]


def gen(rng, tier, index):
    kind = rng.choice(["delay", "promise", "future"])
    ntasks = rng.choice([2, 3, 3, 4])
    faults = rng.random() < 0.6
    if kind == "delay":
        tasks = [[{"op": rng.choice(["deref", "deref", "force", "realized?"])}
                  for _ in range(rng.choice([1, 2, 3]))] for _ in range(ntasks)]
        body = {"sleep": rng.choice([0, 0, 0.01]) if faults else 0,
                "throw_first": faults and rng.random() < 0.35, "points": rng.choice([1, 2, 3]),
                # the body BLOCKS on a promise that an independent task delivers (after a virtual delay or at once)
                "gate": rng.choice([0, 0.01, 0.03]) if faults and rng.random() < 0.3 else None,
                # the first run of the body derefs the delay ITSELF (once): a nested run on the same thread whose
                # value every deref - the nested one included - must agree on
                "self_deref": rng.random() < 0.12}
        if body["self_deref"]:
            body["throw_first"] = False
        return {"kind": "delay", "tasks": tasks, "body": body, "faults": faults}
    if kind == "promise":
        tasks = []
        vid = 0
        for t in range(ntasks):
            ops = []
            for j in range(rng.choice([1, 2, 3])):
                r = rng.random()
                if (t == 0 and j == 0) or r < 0.25:
                    op = {"op": "deliver", "v": vid}
                    if rng.random() < 0.3:
                        op["falsy"] = rng.choice(["nil", "false", "zero", "empty"])   # delivered values that are falsy
                    if rng.random() < 0.25:
                        op["call"] = True          # (p v): a promise is a function that delivers
                    vid += 1
                elif r < 0.5:
                    op = {"op": "deref"}
                elif r < 0.8:
                    op = {"op": "tderef", "ms": rng.choice([0, 10, 10, 20, 50, -5, 0.5, 10.5])}
                else:
                    op = {"op": "realized?"}
                if faults and rng.random() < 0.3:
                    op["pre_sleep"] = rng.choice([0.01, 0.01, 0.02, 0.05])
                ops.append(op)
            tasks.append(ops)
        return {"kind": "promise", "tasks": tasks, "faults": faults}
    tasks = []
    cancels = rng.random() < 0.3          # runs in which the future may be cancelled while queued, running or done
    for t in range(ntasks):
        ops = []
        for j in range(rng.choice([1, 2, 3])):
            r = rng.random()
            if r < 0.4:
                op = {"op": "deref"}
            elif r < 0.75:
                op = {"op": "tderef", "ms": rng.choice([0, 10, 10, 20, 50, -5, 0.5, 10.5])}
            else:
                op = {"op": rng.choice(["realized?", "future-done?"])}
            if cancels and rng.random() < 0.3:
                op = {"op": rng.choice(["future-cancel", "future-cancel", "future-cancelled?"])}
            if faults and rng.random() < 0.3:
                op["pre_sleep"] = rng.choice([0.01, 0.02, 0.05])
            ops.append(op)
        tasks.append(ops)
    body = {"sleep": rng.choice([0, 0.01, 0.02, 0.05]) if faults else 0,
            "exc": rng.choice(EXC_PALETTE) if faults and rng.random() < 0.5 else None,
            "points": rng.choice([1, 2]), "ret": rng.choice(["int", "int", "int", "nil", "false"]),
            "gate": rng.choice([0, 0.01, 0.03]) if faults and rng.random() < 0.3 else None}
    return {"kind": "future", "tasks": tasks, "body": body, "faults": faults,
            "workers": rng.choice([1, 2, 3]), "blocker": (faults and rng.random() < 0.3) or (cancels and rng.random() < 0.6)}


def shrink(workload):
    from checks import common
    for w in common.shrink_tasks(workload):
        if w["kind"] == "promise" and not any(o["op"] == "deliver" for o in w["tasks"][0][:1]):
            continue
        yield w
    for i, t in enumerate(workload["tasks"]):
        for j, o in enumerate(t):
            if o.get("pre_sleep"):
                w = copy.deepcopy(workload)
                del w["tasks"][i][j]["pre_sleep"]
                yield w
    b = workload.get("body")
    if b:
        for key, val in (("sleep", 0), ("throw_first", False), ("points", 1), ("gate", None), ("self_deref", False)):
            if b.get(key) is not None and b.get(key) is not False and b.get(key) != val:
                w = copy.deepcopy(workload)
                w["body"][key] = val
                yield w
    if workload.get("blocker"):
        w = copy.deepcopy(workload)
        w["blocker"] = False
        yield w
    if workload.get("workers", 1) > 1:
        w = copy.deepcopy(workload)
        w["workers"] = 1
        yield w


def nontrivial(rec):
    return rec["switches"] > 2 and (rec["probes"].get("lock_contended", 0) > 0 or rec["timer_fires"] > 0
                                    or bool(rec.get("faults")))


def describe():
    return {
        "rule": "workload = one delay / promise / future raced by 2-4 tasks x 1-3 ops (deref, timed deref, force, "
                "deliver - also as (p v) -, realized?, future-done?, future-cancel, future-cancelled?) with bodies that yield, "
                "sleep (virtual), block on a promise another task delivers, or throw; pool of 1-3 workers, optional "
                "blocker job; forward clock jumps in half the runs. Non-trivial = more than two baton hand-offs AND "
                "(a sim lock was contended OR a timer fired OR an injected fault fired); distinct = distinct "
                "(switch signature, workload).",
        "real": ["basilisp.lang.delay.Delay", "basilisp.lang.promise.Promise", "basilisp.lang.futures.Future",
                 "basilisp.lang.futures.ThreadPoolExecutor", "concurrent.futures.thread._worker/_WorkItem",
                 "concurrent.futures._base.Future", "basilisp.lang.atom.Atom",
                 "core.lpy deref force deliver realized? future-call bound-fn* with-bindings*",
                 "runtime._deref_blocking", "real OS threads incl. pool workers (one runnable at a time)"],
        "stub": ["threading.Lock/RLock/Condition/Semaphore/Thread and queue.SimpleQueue under those classes (sim)",
                 "time.monotonic (virtual clock)", "OS scheduler (seeded baton kernel)"],
        "fault_kinds": ["body_throw", "body_sleep", "body_blocks", "body_derefs_own_delay", "pre_sleep", "clock_jump", "pool_blocker", "timeout_fired",
                        "cancel", "cancel_won"],
        "assumptions": ["sim Condition: no spurious wake-ups, FIFO notify (one legal behaviour)",
                        "virtual time advances only when nothing is runnable or by an injected forward jump"],
        "hashseeds": [0],
    }


# ------------------------------------------------------------------ helpers

class Rec:
    def __init__(self, k):
        self.k = k
        self.ops = []
        self.faults = {}
        self.body = []     # (kind, seq, vtime, task, n)

    def fault(self, name, n=1):
        self.faults[name] = self.faults.get(name, 0) + n

    def do(self, opid, task, kind, args, thunk):
        k = self.k
        if args.get("pre_sleep"):
            self.fault("pre_sleep")
            P.sleep(args["pre_sleep"])
        t0 = k.now
        inv = k.ev("inv", opid, kind)
        try:
            r = ("ok", thunk())
        except P._k.SimAbort:
            raise
        except BaseException as e:  # noqa: BLE001
            r = ("exc", type(e).__name__)
        ret = k.ev("ret", opid, _plain(r))
        o = lin.Op(opid, task, inv, ret, kind, args, _plain(r))
        o_t = (t0, k.now)
        self.ops.append((o, o_t))


def _plain(r):
    tag, v = r
    if v is TIMEOUT_VAL:
        return (tag, "TIMEOUT")
    if isinstance(v, (int, str, bool)) or v is None:
        return (tag, v)
    return (tag, repr(v))


def _pval(op):
    """The object a promise `deliver` op delivers (some are falsy on purpose)."""
    f = op.get("falsy")
    if f == "nil":
        return None
    if f == "false":
        return False
    if f == "zero":
        return 0
    if f == "empty":
        return ""
    return 500 + op["v"]


def _pplain(op):
    return _plain(("ok", _pval(op)))[1]


def _hist(rec):
    return [dict(o.to_json(), t_inv=t[0], t_ret=t[1]) for o, t in rec.ops]


def _mk_exc(name):
    if name == "ValueError":
        return ValueError("body")
    if name == "ExceptionInfo":
        from basilisp.lang.exception import ExceptionInfo
        from basilisp.lang import map as lmap
        return ExceptionInfo("body", lmap.EMPTY)
    if name == "TimeoutError":
        return TimeoutError("body's own blocking call timed out")
    if name == "socket.timeout":
        return socket.timeout("timed out")
    if name == "OSError":
        return OSError("body")
    return Boom("body")


def _exc_class_name(name):
    return type(_mk_exc(name)).__name__


def run(workload, k):
    kind = workload["kind"]
    if kind == "delay":
        return _run_delay(workload, k)
    if kind == "promise":
        return _run_promise(workload, k)
    return _run_future(workload, k)


def _mk_gate(k, rec, b):
    """A body that BLOCKS: it derefs a promise which an independent task delivers (after a virtual delay)."""
    if b.get("gate") is None:
        return None, None
    gate = Promise()

    def opener():
        if b["gate"]:
            P.sleep(b["gate"])
        P.point("gate")
        gate.deliver(True)

    def wait():
        rec.fault("body_blocks")
        _fns["deref"](gate)
    return opener, wait


def _spawn_tasks(k, rec, workload, exec_op):
    def mk(ti, ops):
        def body():
            for oi, op in enumerate(ops):
                rec.do(f"{ti}.{oi}", f"T{ti}", op["op"], op, lambda: exec_op(op, ti, oi))
        return body
    for ti, ops in enumerate(workload["tasks"]):
        k.spawn(mk(ti, ops), name=f"T{ti}")


def _monotone(rec, kinds=("realized?", "future-done?")):
    """realized? must never be seen true and later (strictly after, in global order) false."""
    samples = [(o, t) for o, t in rec.ops if o.kind in kinds and o.result[0] == "ok"]
    for a, _ in samples:
        if a.result[1] is True:
            for b, _ in samples:
                if b.result[1] is False and b.inv > a.ret:
                    return (a, b)
    return None


# ------------------------------------------------------------------ delay

def _run_delay(workload, k):
    rec = Rec(k)
    b = workload["body"]
    st = {"active": {}, "n": 0, "max_active": 0, "threw_in": []}

    opener, gate_wait = _mk_gate(k, rec, b)

    def body():
        st["n"] += 1
        n = st["n"]
        me = k.cur.name
        # "run by at most one thread at a time": count THREADS inside the body (a body that derefs its own delay
        # nests a second run on the same thread)
        st["active"][me] = st["active"].get(me, 0) + 1
        st["max_active"] = max(st["max_active"], sum(1 for c in st["active"].values() if c > 0))
        rec.body.append(("start", k.ev("bstart", n), k.now, me, n))
        try:
            for _ in range(b["points"]):
                P.point("body")
            if b.get("self_deref") and n == 1:
                rec.fault("body_derefs_own_delay")
                rec.do("nested", me, "deref", {"op": "deref"}, lambda: _fns["deref"](d))
            if gate_wait:
                gate_wait()
            if b["sleep"]:
                rec.fault("body_sleep")
                P.sleep(b["sleep"])
            if b["throw_first"] and n == 1:
                rec.fault("body_throw")
                rec.body.append(("throw", k.ev("bthrow", n), k.now, me, n))
                raise Boom("delay body")
            rec.body.append(("end", k.ev("bend", n), k.now, me, n))
            return 100 + n
        finally:
            st["active"][me] -= 1

    d = Delay(body)

    def exec_op(op, ti, oi):
        if op["op"] == "deref":
            return _fns["deref"](d)
        if op["op"] == "force":
            return _fns["force"](d)
        return _fns["realized?"](d)

    _spawn_tasks(k, rec, workload, exec_op)
    if opener:
        k.spawn(opener, name="G")
    k.run()
    kv = R.kernel_failure_verdict(ID, k)
    if kv is not None:
        kv["faults"] = rec.faults
        return kv
    det = {"history": _hist(rec), "body_events": rec.body}
    if st["max_active"] > 1:
        return R.verdict("violation", f"{ID}/delay-body-concurrent", det, faults=rec.faults)
    ends = [e for e in rec.body if e[0] == "end"]
    starts = [e for e in rec.body if e[0] == "start"]
    if ends:
        first_end = min(e[1] for e in ends)
        if any(s[1] > first_end for s in starts):
            return R.verdict("violation", f"{ID}/delay-body-rerun-after-return", det, faults=rec.faults)
    vals = set()
    throws = collections.Counter(e[3] for e in rec.body if e[0] == "throw")
    for o, _ in rec.ops:
        if o.kind in ("deref", "force"):
            if o.result[0] == "ok":
                vals.add(o.result[1])
            elif o.result[1] != "Boom" or throws[o.task] == 0:
                return R.verdict("violation", f"{ID}/delay-deref-raised:{o.result[1]}", det, faults=rec.faults)
            else:
                throws[o.task] -= 1
    if sum(throws.values()) > 0:
        return R.verdict("violation", f"{ID}/delay-exception-swallowed", det, faults=rec.faults)
    if len(vals) > 1:
        return R.verdict("violation", f"{ID}/delay-derefs-disagree", det, faults=rec.faults)
    if vals and not ends:
        return R.verdict("violation", f"{ID}/delay-value-without-run", det, faults=rec.faults)
    if vals and next(iter(vals)) not in {100 + e[4] for e in ends}:
        return R.verdict("violation", f"{ID}/delay-wrong-value", det, faults=rec.faults)
    # realized?: true only after a body run returned; false never after a deref returned
    first_end = min((e[1] for e in ends), default=None)
    for o, _ in rec.ops:
        if o.kind == "realized?" and o.result[0] == "ok":
            if o.result[1] is True and (first_end is None or first_end > o.ret):
                return R.verdict("violation", f"{ID}/delay-realized-before-run", det, faults=rec.faults)
            if o.result[1] is False:
                for p, _ in rec.ops:
                    if p.kind in ("deref", "force") and p.result[0] == "ok" and p.ret < o.inv:
                        return R.verdict("violation", f"{ID}/delay-unrealized-after-deref", det, faults=rec.faults)
    mono = _monotone(rec)
    if mono:
        return R.verdict("violation", f"{ID}/delay-realized-not-monotone", det, faults=rec.faults)
    return R.verdict("pass", faults=rec.faults, extra={"delay_runs": 1, "delay_body_runs": st["n"]})


# ------------------------------------------------------------------ promise

def _timed_rule(rec, completes, what):
    """A timed deref may yield the timeout value only if nothing completed strictly before
    its deadline, and never before its deadline has been reached; when the clock was not
    jumped forward it waits "at most timeout-ms" (core.lpy deref docstring): it is back by
    its virtual deadline whatever it returns."""
    k = rec.k
    if not k.jumps:
        for o, (t0, t1) in rec.ops:
            if o.kind == "tderef":
                dl = t0 + max(o.args["ms"], 0) / 1000.0        # a negative timeout is "do not wait"
                if t1 > dl + 1e-9:
                    return f"{ID}/{what}-timed-deref-overslept", o
    for o, (t0, t1) in rec.ops:
        if o.kind == "tderef" and o.result == ("ok", "TIMEOUT"):
            dl = t0 + max(o.args["ms"], 0) / 1000.0
            if t1 < dl - 1e-12:
                return f"{ID}/{what}-timed-deref-early-timeout", o
            for tc in completes:
                if tc < dl - 1e-12:
                    return f"{ID}/{what}-timed-deref-ignored-value", o
    return None


def _run_promise(workload, k):
    rec = Rec(k)
    p = Promise()

    def exec_op(op, ti, oi):
        kind = op["op"]
        if kind == "deliver":
            if op.get("call"):
                return p(_pval(op))
            return _fns["deliver"](p, _pval(op))
        if kind == "deref":
            return _fns["deref"](p)
        if kind == "tderef":
            return _fns["deref"](p, op["ms"], TIMEOUT_VAL)
        return _fns["realized?"](p)

    _spawn_tasks(k, rec, workload, exec_op)
    k.run()
    if k.timer_fires:
        rec.fault("timeout_fired", k.timer_fires)
    if k.jumps:
        rec.fault("clock_jump", k.jumps)
    kv = R.kernel_failure_verdict(ID, k)
    if kv is not None:
        kv["faults"] = rec.faults
        if kv["signature"] == f"{ID}/deadlock":
            kv["signature"] = f"{ID}/promise-lost-wakeup-or-deadlock"
        return kv
    det = {"history": _hist(rec)}
    for o, _ in rec.ops:
        if o.result[0] == "exc":
            return R.verdict("violation", f"{ID}/promise-op-raised:{o.kind}:{o.result[1]}", det, faults=rec.faults)

    UNSET = ("unset",)

    def step(state, o):
        kind, res = o.kind, o.result
        if kind == "deliver":
            if res[0] != "ok":
                return []
            return [(("v", _pplain(o.args)) if state is UNSET else state, None)]
        if kind == "deref":
            return [(state, None)] if state is not UNSET and res == ("ok", state[1]) else []
        if kind == "tderef":
            if state is UNSET:
                return [(state, None)] if res == ("ok", "TIMEOUT") else []
            return [(state, None)] if res == ("ok", state[1]) else []
        if kind == "realized?":
            return [(state, None)] if res == ("ok", state is not UNSET) else []
        return []

    try:
        ok = lin.linearize([o for o, _ in rec.ops], UNSET, step)
    except lin.SearchBudget:
        return R.verdict("inconclusive", f"{ID}/lin-budget", None, faults=rec.faults)
    if ok is None:
        return R.verdict("violation", f"{ID}/promise-not-linearizable", det, faults=rec.faults)
    completes = [t[1] for o, t in rec.ops if o.kind == "deliver"]
    tr = _timed_rule(rec, completes, "promise")
    if tr:
        return R.verdict("violation", tr[0], dict(det, op=tr[1].to_json()), faults=rec.faults)
    return R.verdict("pass", faults=rec.faults, extra={"promise_runs": 1})


# ------------------------------------------------------------------ future

def _run_future(workload, k):
    rec = Rec(k)
    b = workload["body"]
    st = {"set_at": None, "body_end": None, "fut": None}

    opener, gate_wait = _mk_gate(k, rec, b)

    def body():
        rec.body.append(("start", k.ev("bstart"), k.now, k.cur.name, 1))
        for _ in range(b["points"]):
            P.point("body")
        if gate_wait:
            gate_wait()
        if b["sleep"]:
            rec.fault("body_sleep")
            P.sleep(b["sleep"])
        if b["exc"]:
            rec.fault("body_throw")
            rec.body.append(("throw", k.ev("bthrow"), k.now, k.cur.name, 1))
            raise _mk_exc(b["exc"])
        rec.body.append(("end", k.ev("bend"), k.now, k.cur.name, 1))
        return {"int": 4242, "nil": None, "false": False}[b.get("ret", "int")]

    def exec_op(op, ti, oi):
        fut = st["fut"]
        kind = op["op"]
        if kind == "deref":
            return _fns["deref"](fut)
        if kind == "tderef":
            return _fns["deref"](fut, op["ms"], TIMEOUT_VAL)
        if kind == "future-done?":
            return _fns["future-done?"](fut)
        if kind == "future-cancel":
            rec.fault("cancel")
            return _fns["future-cancel"](fut)
        if kind == "future-cancelled?":
            return _fns["future-cancelled?"](fut)
        return _fns["realized?"](fut)

    def main():
        pool = Pool(max_workers=workload["workers"])
        try:
            if workload["blocker"]:
                rec.fault("pool_blocker")
                pool.submit(lambda: P.sleep(0.03))
            fut = _fns["future-call"](body, pool)
            st["fut"] = fut

            def on_done(_f):
                st["set_at"] = (k.ev("fset"), k.now)
            fut._future.add_done_callback(on_done)
            ths = []
            if opener:
                ths.append(P.SimThread(target=opener, name="G"))
            for ti, ops in enumerate(workload["tasks"]):
                def tb(ti=ti, ops=ops):
                    for oi, op in enumerate(ops):
                        rec.do(f"{ti}.{oi}", f"T{ti}", op["op"], op, lambda: exec_op(op, ti, oi))
                th = P.SimThread(target=tb, name=f"T{ti}")
                ths.append(th)
            for th in ths:
                th.start()
            for th in ths:
                th.join()
        finally:
            pool.shutdown(wait=True)

    k.spawn(main, name="main")
    k.run()
    if k.timer_fires:
        rec.fault("timeout_fired", k.timer_fires)
    if k.jumps:
        rec.fault("clock_jump", k.jumps)
    kv = R.kernel_failure_verdict(ID, k)
    if kv is not None:
        kv["faults"] = rec.faults
        return kv
    mt = k.by_name["main"]
    if mt.exc is not None and mt.exc != "abort":
        return R.verdict("harness", f"{ID}/harness", "main task raised " + repr(mt.exc), faults=rec.faults)
    det = {"history": _hist(rec), "body": b, "body_events": rec.body, "set_at": st["set_at"]}
    want = ("exc", _exc_class_name(b["exc"])) if b["exc"] else ("ok", {"int": 4242, "nil": None, "false": False}[b.get("ret", "int")])
    # ---- cancellation (concurrent.futures contract): cancel succeeds iff the body has not started, and then it
    # never starts; the outcome of a cancelled future is CancelledError; done/realized? are true from then on
    starts = [e[1] for e in rec.body if e[0] == "start"]
    cancels = [o for o, _ in rec.ops if o.kind == "future-cancel"]
    for o in cancels:
        if o.result[0] != "ok" or o.result[1] not in (True, False):
            return R.verdict("violation", f"{ID}/future-op-raised:{o.kind}:{o.result[1]}", det, faults=rec.faults)
    won = [o for o in cancels if o.result[1] is True]
    if won:
        rec.fault("cancel_won", len(won))
        if starts:
            return R.verdict("violation", f"{ID}/future-body-ran-although-cancelled", dict(det, op=won[0].to_json()),
                             faults=rec.faults)
        want = ("exc", "CancelledError")
    # a refused cancel means a worker had already taken the job (the stdlib marks it RUNNING before calling the
    # body, so the body's own first event may come later): the body runs in this history
    for o in cancels:
        if o.result[1] is False and not starts:
            return R.verdict("violation", f"{ID}/future-cancel-refused-but-body-never-ran", dict(det, op=o.to_json()),
                             faults=rec.faults)
    for o, _ in rec.ops:
        if o.kind == "future-cancelled?":
            if o.result[0] != "ok":
                return R.verdict("violation", f"{ID}/future-op-raised:{o.kind}:{o.result[1]}", det, faults=rec.faults)
            if o.result[1] is True and not any(c.inv < o.ret for c in won):
                return R.verdict("violation", f"{ID}/future-cancelled-without-cancel", dict(det, op=o.to_json()),
                                 faults=rec.faults)
            if o.result[1] is False and any(c.ret < o.inv for c in won):
                return R.verdict("violation", f"{ID}/future-not-cancelled-after-cancel", dict(det, op=o.to_json()),
                                 faults=rec.faults)
    got_final = []
    for o, _ in rec.ops:
        if o.kind == "deref":
            if o.result != want:
                sig = f"{ID}/future-deref-wrong-outcome"
                return R.verdict("violation", sig, dict(det, op=o.to_json(), want=list(want), got=list(o.result)),
                                 faults=rec.faults)
            got_final.append(o)
        elif o.kind == "tderef":
            if o.result != want and o.result != ("ok", "TIMEOUT"):
                sig = f"{ID}/future-timed-deref-wrong-outcome"
                return R.verdict("violation", sig, dict(det, op=o.to_json(), want=list(want), got=list(o.result)),
                                 faults=rec.faults)
            if o.result == want:
                got_final.append(o)
    # a timed deref invoked after some deref already produced the outcome cannot time out
    for o, _ in rec.ops:
        if o.kind == "tderef" and o.result == ("ok", "TIMEOUT"):
            for g in got_final:
                if g.ret < o.inv:
                    return R.verdict("violation", f"{ID}/future-timed-deref-timeout-after-outcome",
                                     dict(det, op=o.to_json(), want=list(want)), faults=rec.faults)
    completes = [st["set_at"][1]] if st["set_at"] else []
    tr = _timed_rule(rec, completes, "future")
    if tr:
        return R.verdict("violation", tr[0], dict(det, op=tr[1].to_json(), want=list(want)), faults=rec.faults)
    # realized?/done: true only once the body finished; false never after an outcome was returned
    fin = sorted([e[1] for e in rec.body if e[0] in ("end", "throw")] + [c.inv for c in won])
    for o, _ in rec.ops:
        if o.kind in ("realized?", "future-done?") and o.result[0] == "ok":
            if o.result[1] is True and (not fin or fin[0] > o.ret):
                return R.verdict("violation", f"{ID}/future-realized-before-body-finished", det, faults=rec.faults)
            if o.result[1] is False and any(g.ret < o.inv for g in got_final):
                return R.verdict("violation", f"{ID}/future-unrealized-after-outcome", det, faults=rec.faults)
        elif o.kind in ("realized?", "future-done?"):
            return R.verdict("violation", f"{ID}/future-op-raised:{o.kind}:{o.result[1]}", det, faults=rec.faults)
    if _monotone(rec) or _monotone(rec, ("future-cancelled?",)):
        return R.verdict("violation", f"{ID}/future-realized-not-monotone", det, faults=rec.faults)
    return R.verdict("pass", faults=rec.faults, extra={"future_runs": 1})
