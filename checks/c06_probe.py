"""Real-thread probe for the native LazySeq mutex (declared auxiliary, NOT simulation).

Under simulation a contended acquisition goes through the guarded hook and never takes the
blocking slow path, so the one thing the simulator cannot see is a native wait performed
while holding the GIL.  This child runs N real threads over one unrealized cell whose
producer releases the GIL (time.sleep) without any hook; the parent treats a watchdog exit
as a hang.  usage: c06_probe.py <variant> <nthreads>
"""
import faulthandler
import sys
import threading
import time

sys.path.insert(0, __file__.rsplit("/", 2)[0])
from sim import bootstrap as B  # noqa: E402

WATCHDOG_EXIT = 86


def main():
    variant, nthreads = sys.argv[1], int(sys.argv[2])
    B.boot_basilisp()
    faulthandler.dump_traceback_later(30, exit=True)
    from basilisp.lang import seq as lseq
    from checks import common
    cons, map_, first, rest, seq, count = (common.core_fn(n) for n in ("cons", "map", "first", "rest", "seq", "count"))
    calls = [0]

    def producer():
        calls[0] += 1
        time.sleep(0.05)          # releases the GIL while the cell's mutex is held
        return cons(1, cons(2, None))

    cell = lseq.LazySeq(producer)
    target = cell if variant != "map" else map_(lambda x: x + 1, cell)
    wrappers = [lseq.LazySeq(lambda: cell) for _ in range(nthreads)]     # variant "wrap": one per thread
    widx = []
    out = []

    def consumer():
        if variant == "first":
            out.append(first(target))
        elif variant == "seq":
            out.append(first(seq(target)))
        elif variant == "realized":
            out.append((cell.is_realized, first(target))[1])
        elif variant == "iter":
            out.append(next(iter(target)))
        elif variant == "map":
            out.append(first(target) - 1)
        elif variant == "count":
            out.append(count(target) - 1)
        elif variant == "wrap":
            # every thread but the first reaches the shared cell through its own (lazy-seq cell):
            # the cell is then realized by the wrapper's walk over nested lazy seqs
            i = len(widx)
            widx.append(i)
            out.append(first(cell) if i == 0 else first(wrappers[i]))
    ths = [threading.Thread(target=consumer) for _ in range(nthreads)]
    for t in ths:
        t.start()
    for t in ths:
        t.join()
    faulthandler.cancel_dump_traceback_later()
    ok = out == [1] * nthreads and calls[0] == 1
    print(f"PROBE variant={variant} threads={nthreads} out={out} producer_calls={calls[0]} ok={ok}")
    sys.exit(0 if ok else 3)


if __name__ == "__main__":
    main()
