"""procsim incarnations for C14.

`serve` mode: boot basilisp once under this process's PYTHONHASHSEED, then for every JSON
request on stdin fork a child that plays one *interpreter incarnation*: it imports the
generated namespace through the real import machinery (cache in the run's scratch dir),
optionally crashing inside the cache write, and writes a JSON report.  Forking after
initialisation is equivalent to a fresh process that has loaded the bundled namespaces:
the hash seed, the keyword intern table and sys.modules are those of a fresh start.
"""
import errno
import json
import os
import sys
import traceback

sys.path.insert(0, __file__.rsplit("/", 2)[0])
from sim import bootstrap as B  # noqa: E402


def canon(v, depth=0):
    """Process-independent canonical form of a basilisp/python value."""
    import datetime
    import decimal
    import fractions
    import re
    import types
    import uuid
    from basilisp.lang import keyword as kw, symbol as sym, map as lmap, set as lset, vector as vec, list as llist
    from basilisp.lang import runtime as rt
    from basilisp.lang.interfaces import IRecord, ISeq, IType
    if depth > 8:
        return "<deep>"
    if v is None or isinstance(v, (bool, str)):
        return v
    if isinstance(v, int):
        return ["int", str(v)]
    if isinstance(v, float):
        return ["float", repr(v)]
    if isinstance(v, fractions.Fraction):
        return ["ratio", str(v)]
    if isinstance(v, decimal.Decimal):
        return ["dec", str(v)]
    if isinstance(v, complex):
        return ["complex", repr(v)]
    if isinstance(v, bytes):
        return ["bytes", v.hex()]
    if isinstance(v, kw.Keyword):
        return ["kw", v.ns, v.name, v is kw.keyword(v.name, ns=v.ns)]
    if isinstance(v, sym.Symbol):
        # the flag is what a program sees when it looks this symbol up in a hashed collection
        return ["sym", v.ns, v.name, hash(v) == hash(sym.symbol(v.name, ns=v.ns))]
    if isinstance(v, re.Pattern):
        return ["re", v.pattern, v.flags]
    if isinstance(v, uuid.UUID):
        return ["uuid", str(v)]
    if isinstance(v, datetime.datetime):
        return ["inst", v.isoformat()]
    if isinstance(v, IRecord):
        return ["record", type(v).__name__, sorted(([canon(k, depth + 1), canon(x, depth + 1)] for k, x in v.items()),
                                                    key=lambda p: json.dumps(p, sort_keys=True, default=str))]
    def fresh(x):
        if isinstance(x, sym.Symbol):
            return sym.symbol(x.name, ns=x.ns)
        if isinstance(x, kw.Keyword):
            return kw.keyword(x.name, ns=x.ns)
        return x

    if isinstance(v, (lmap.PersistentMap, dict)):
        items = sorted(([canon(k, depth + 1), canon(x, depth + 1)] for k, x in v.items()),
                       key=lambda p: json.dumps(p, sort_keys=True, default=str))
        return ["map", items, canon(getattr(v, "meta", None), depth + 1), all(fresh(k) in v for k in list(v.keys()))]
    if isinstance(v, (lset.PersistentSet, set, frozenset)):
        return ["set", sorted((canon(x, depth + 1) for x in v), key=lambda p: json.dumps(p, sort_keys=True, default=str)),
                all(fresh(x) in v for x in list(v))]
    if isinstance(v, vec.PersistentVector):
        return ["vec", [canon(x, depth + 1) for x in v], canon(v.meta, depth + 1)]
    if isinstance(v, (llist.PersistentList, ISeq)):
        return ["list", [canon(x, depth + 1) for x in v]]
    if isinstance(v, (list, tuple)):
        return ["pyseq", type(v).__name__, [canon(x, depth + 1) for x in v]]
    import collections as _c
    if isinstance(v, _c.deque) or type(v).__name__ == "PersistentQueue":
        return ["queue", type(v).__name__, [canon(x, depth + 1) for x in v]]
    if isinstance(v, rt.Var):
        return ["var", str(v)]
    if isinstance(v, rt.Namespace):
        return ["ns", v.name]
    if isinstance(v, (types.FunctionType, types.BuiltinFunctionType, types.MethodType)):
        return ["fn"]
    if isinstance(v, type):
        return ["class", v.__name__]
    if isinstance(v, IType):
        return ["type-instance", type(v).__name__]
    return ["other", type(v).__name__]


def snapshot(nsname, calls):
    from basilisp.lang import runtime as rt, symbol as sym, compiler, reader
    ns = rt.Namespace.get(sym.symbol(nsname))
    if ns is None:
        return {"__missing_namespace__": True}
    snap = {}
    for s, var in ns.interns.items():
        meta = var.meta
        m = None
        if meta is not None:
            m = canon(meta)
        if s.name == "*generated-python*":
            continue        # debug artefact: the generated Python text exists only when compiled from source
        val = var.root if hasattr(var, "root") else var.value
        snap[s.name] = {"meta": m, "value": canon(val), "dynamic": bool(var.dynamic)}
    ctx = compiler.CompilerContext("<snapshot>")
    res = []
    for fn, args in calls:
        try:
            with rt.ns_bindings(nsname) as cur:
                last = None
                for form in reader.read_str(f"({fn} {args})"):
                    last = compiler.compile_and_exec_form(form, ctx, cur)
            res.append([fn, args, canon(last)])
        except Exception as e:  # noqa: BLE001
            res.append([fn, args, ["raised", type(e).__name__]])
    snap["__calls__"] = res
    return snap


def incarnation(req):
    """Runs in the forked child.  Returns the report dict."""
    import importlib
    from basilisp import importer
    scratch = req["scratch"]
    modname = req["module"]
    sys.path.insert(0, os.path.join(scratch, "src"))
    if req.get("reference"):
        sys.pycache_prefix = os.path.join(scratch, "ref-empty")
        sys.dont_write_bytecode = True
    else:
        sys.pycache_prefix = os.path.join(scratch, "pyc")
        sys.dont_write_bytecode = False
    fx = type(sys)("verif_fx")
    fx.effects = []
    sys.modules["verif_fx"] = fx
    path = []
    BI = importer.BasilispImporter
    orig_cached, orig_src, orig_set = BI._exec_cached_module, BI._exec_module, BI.set_data

    # (the two helpers are private: wrap them whatever their parameter list is, keyed on the module name)
    def w_cached(self, fullname, *a, **kw):
        if fullname != modname:
            return orig_cached(self, fullname, *a, **kw)
        try:
            r = orig_cached(self, fullname, *a, **kw)
            path.append("cached-ok")
            return r
        except BaseException as e:  # noqa: BLE001
            path.append(f"cached-failed:{type(e).__name__}:effects={len(fx.effects)}")
            raise

    def w_src(self, fullname, *a, **kw):
        if fullname == modname:
            path.append("source")
        return orig_src(self, fullname, *a, **kw)

    # a source edit that lands DURING this load: after the source has been read and compiled, before the cache
    # is written (an editor save, a deploy, a git checkout racing the import)
    edit = req.get("edit_during")
    edited = []
    if edit:
        from basilisp.lang import compiler as _compiler
        orig_cm = _compiler.compile_module

        def w_cm(*a, **kw):
            r = orig_cm(*a, **kw)
            if not edited and path and path[-1] == "source":
                with open(edit["path"], "w") as f:
                    f.write(edit["text"])
                os.utime(edit["path"], (edit["mtime"], edit["mtime"]))
                edited.append(True)
                path.append("source-edited-during-load")
            return r
        _compiler.compile_module = w_cm

    crash = req.get("crash")

    def w_set(self, p, data):
        if crash and p.endswith(".lpyc") and modname.replace(".", os.sep) in p:
            k = min(int(crash[1] * len(data)) if isinstance(crash[1], float) else crash[1], len(data))
            os.makedirs(os.path.dirname(p), exist_ok=True)
            with open(p, "w+b") as f:
                f.write(data[:k])
                f.flush()
                os.fsync(f.fileno())
            path.append(f"crash-{crash[0]}-after-{k}-of-{len(data)}")
            if crash[0] == "exit":
                _write_report(req, {"ok": False, "crashed": True, "path": path, "effects": list(fx.effects),
                                    "written": k, "full": len(data)})
                os._exit(137)
            raise OSError(errno.ENOSPC, "No space left on device (injected)")
        return orig_set(self, p, data)

    BI._exec_cached_module, BI._exec_module, BI.set_data = w_cached, w_src, w_set
    rep = {"ok": True, "error": None, "crashed": False}
    try:
        importlib.import_module(modname)
    except BaseException as e:  # noqa: BLE001
        rep["ok"] = False
        rep["error"] = f"{type(e).__name__}: {e}"[:500]
        rep["trace"] = traceback.format_exc()[-1500:]
    # a RELOAD inside this process: the source is replaced and the namespace imported again, so the cache is rewritten
    # by a compiler running in a process that already holds an older version of the namespace (REPL development)
    rl = req.get("reload")
    if rl and rep["ok"]:
        try:
            with open(rl["path"], "w") as f:
                f.write(rl["text"])
            os.utime(rl["path"], (rl["mtime"], rl["mtime"]))
            path.append("reload")
            importlib.reload(sys.modules[modname])
            rep["reloaded"] = True
        except BaseException as e:  # noqa: BLE001
            rep["ok"] = False
            rep["error"] = f"reload failed: {type(e).__name__}: {e}"[:500]
            rep["trace"] = traceback.format_exc()[-1500:]
    rep["path"] = path
    rep["edited"] = bool(edited)
    rep["effects"] = list(fx.effects)
    if rep["ok"]:
        try:
            rep["snapshot"] = snapshot(req["ns"], req.get("calls", []))
        except BaseException as e:  # noqa: BLE001
            rep["ok"] = False
            rep["error"] = f"snapshot failed: {type(e).__name__}: {e}"[:500]
            rep["trace"] = traceback.format_exc()[-1500:]
    return rep


def _write_report(req, rep):
    tmp = req["out"] + ".tmp"
    with open(tmp, "w") as f:
        json.dump(rep, f, default=str)
    os.replace(tmp, req["out"])


def bundled_snapshot(req):
    """Thorough tier: public-Var snapshot of bundled namespaces in THIS interpreter."""
    import importlib
    from basilisp.lang import runtime as rt, symbol as sym
    out = {}
    for n in req["namespaces"]:
        importlib.import_module(n.replace("-", "_"))
        ns = rt.Namespace.get(sym.symbol(n))
        snap = {}
        for s, var in ns.interns.items():
            if var.is_private:
                continue
            try:
                snap[s.name] = {"value": canon(var.root), "meta_keys": sorted(str(k) for k in (var.meta or {}).keys())}
            except Exception as e:  # noqa: BLE001
                snap[s.name] = {"value": ["canon-failed", type(e).__name__]}
        out[n] = snap
    return {"ok": True, "bundled": out}


def serve():
    import faulthandler
    faulthandler.enable()
    B.boot_basilisp()
    import importlib
    importlib.import_module("basilisp.string")
    sys.stdout.write(json.dumps({"ready": True, "hashseed": os.environ.get("PYTHONHASHSEED")}) + "\n")
    sys.stdout.flush()
    for line in sys.stdin:
        line = line.strip()
        if not line:
            continue
        req = json.loads(line)
        if req.get("quit"):
            break
        pid = os.fork()
        if pid == 0:
            code = 0
            try:
                faulthandler.dump_traceback_later(req.get("timeout", 300), exit=True)
                rep = bundled_snapshot(req) if req.get("bundled") else incarnation(req)
                _write_report(req, rep)
            except BaseException:  # noqa: BLE001
                code = 3
                try:
                    _write_report(req, {"ok": False, "error": "child harness: " + traceback.format_exc()[-1500:],
                                        "path": [], "effects": [], "harness": True})
                except Exception:  # noqa: BLE001
                    pass
            finally:
                sys.stdout.flush()
                os._exit(code)
        _, status = os.waitpid(pid, 0)
        sys.stdout.write(json.dumps({"done": True, "status": status}) + "\n")
        sys.stdout.flush()


if __name__ == "__main__":
    if sys.argv[1] == "serve":
        serve()
